#!/opt/veriftools/pyvenv/bin/python
"""validate MANIFEST.json and evidence files against the schemas"""
import json, sys, glob, jsonschema
ms = json.load(open('/root/.vp/MANIFEST.schema.json'))
es = json.load(open('/root/.vp/EVIDENCE.schema.json'))
m = json.load(open('/verif/MANIFEST.json'))
jsonschema.validate(m, ms)
ids = [json.loads(l)["id"] for l in open('/verif/properties.jsonl')]
claimed = [c["property_id"] for c in m["checks"]]
na = [c["property_id"] for c in m.get("not_applicable", [])]
print("claimed", len(claimed), "not_applicable", len(na), "unaccounted", [i for i in ids if i not in claimed and i not in na])
for c in m["checks"]:
    try:
        jsonschema.validate(json.load(open('/verif/' + c["evidence_file"])), es)
    except Exception as e:
        print("EVIDENCE INVALID", c["property_id"], str(e)[:300])
print("ok")
