------------------------------ MODULE MC_C18 ------------------------------
(***************************************************************************)
(* C18: the Session of one ISLaSolver object: check(str), check(tree),     *)
(* parse(str), repair(x), mutate(x).  These operations do not change the    *)
(* solver's abstract state (grammar G, constraint Phi), so the state        *)
(* machine has one state per recorded call and each call is judged by its   *)
(* postcondition:                                                           *)
(*  CheckTree(t)  = Sat(t)                                                   *)
(*  CheckStr(s)   : TRUE needs a parse of s that satisfies Phi; FALSE needs  *)
(*                  s outside the language or a parse that violates Phi      *)
(*  ParseStr(s)   : SyntaxError iff s is outside the language; a returned    *)
(*                  tree is a ValidTree with Yield = s that satisfies Phi;   *)
(*                  SemanticError needs a parse that violates Phi            *)
(*  Repair(x)     : Sat(x) => Some(x) (the same tree); otherwise Nothing or   *)
(*                  Some(y) with y closed, valid, same root, Sat(y)           *)
(*  Mutate(x)     : returns y closed, valid, rooted at the start symbol,      *)
(*                  Sat(y)                                                    *)
(* For grammars that are unambiguous on the strings tried, additionally      *)
(* CheckTree(t) = CheckStr(Yield(t)) follows from the two clauses above.     *)
(* The trees of the case file are all derivation trees up to the bound, so   *)
(* "a parse of s" ranges over them; strings longer than the bound of the     *)
(* Kleene iteration are unjudged.                                            *)
(***************************************************************************)
EXTENDS IslaSemantics, SequencesExt, Json, IOUtils
Data == JsonDeserialize(IOEnv.CASE_FILE)
VARIABLE i
Init == i = 0
Next == i < Len(Data.cases) /\ i' = i + 1

SolOK(c, y) == Closed(y) /\ ValidTree(c.g, y) /\ y.nt /\ y.n = "<start>" /\ (HasBigNumeral(y) \/ SatTop(c.g, y, c.phi, 6))

JudgeCase(k) ==
  LET c == Data.cases[k]
      lang == LangUpTo(c.g, c.L)["<start>"]
      sat == [t \in 1..Len(c.trees) |-> SatTop(c.g, c.trees[t], c.phi, 6)]
      parses(s) == { t \in 1..Len(c.trees) : Yield(c.trees[t]) = s }
      (* the parses of s are known completely: s is not in the language, or the grammar is unambiguous  *)
      (* and the (unique) parse is among the enumerated trees                                          *)
      known(s) == s \notin lang \/ (c.unamb /\ parses(s) # {})
      Verdict(r) ==
        CASE r.op = "CheckTree" ->
               IF r.res = "unknown" THEN "UNJUDGED" ELSE IF (r.res = "T") = sat[r.t] THEN "OK" ELSE "check-tree-wrong"
          [] r.op = "CheckStr" ->
               IF Len(r.s) > c.L \/ ~known(r.s) THEN "UNJUDGED"
               ELSE IF r.res = "T" THEN (IF \E t \in parses(r.s) : sat[t] THEN "OK" ELSE "check-str-true-but-no-satisfying-parse")
               ELSE IF r.res = "F" THEN (IF r.s \notin lang \/ \E t \in parses(r.s) : ~sat[t] THEN "OK" ELSE "check-str-false-but-valid")
               ELSE "check-str-raised"
          [] r.op = "ParseStr" ->
               IF Len(r.s) > c.L THEN "UNJUDGED"
               ELSE IF r.res = "SyntaxError" THEN (IF r.s \notin lang THEN "OK" ELSE "syntax-error-for-member")
               ELSE IF r.res = "SemanticError" THEN
                    (IF r.s \notin lang THEN "semantic-error-for-non-member"
                     ELSE IF ~known(r.s) THEN "UNJUDGED"
                     ELSE IF \E t \in parses(r.s) : ~sat[t] THEN "OK" ELSE "semantic-error-for-valid-input")
               ELSE IF r.res = "tree" THEN
                    (IF r.s \notin lang THEN "parsed-a-non-member"
                     ELSE IF ~(ValidTree(c.g, r.tree) /\ Closed(r.tree) /\ Yield(r.tree) = r.s) THEN "parse-tree-unfaithful"
                     ELSE IF ~HasBigNumeral(r.tree) /\ ~SatTop(c.g, r.tree, c.phi, 6) THEN "parse-returned-violating-tree" ELSE "OK")
               ELSE "parse-raised"
          [] r.op = "Repair" ->
               IF r.res = "timeout" THEN "UNJUDGED"
               ELSE IF sat[r.t] THEN (IF r.res = "some" /\ r.tree = c.trees[r.t] THEN "OK" ELSE "repair-changed-valid-input")
               ELSE IF r.res = "nothing" THEN "OK"
               ELSE IF r.res = "some" THEN (IF SolOK(c, r.tree) THEN "OK" ELSE "repair-returned-invalid")
               ELSE "repair-raised"
          [] r.op = "Mutate" ->
               IF r.res = "timeout" THEN "UNJUDGED"
               ELSE IF r.res = "tree" THEN (IF SolOK(c, r.tree) THEN "OK" ELSE "mutate-returned-invalid")
               ELSE "mutate-raised"
      vs == [j \in 1..Len(c.rows) |-> Verdict(c.rows[j])]
  IN /\ PrintT(<<"CASE", c.id, Len(c.rows), Cardinality({ j \in 1..Len(c.rows) : vs[j] = "OK" }),
                 Cardinality({ j \in 1..Len(c.rows) : vs[j] = "UNJUDGED" }), Cardinality({ t \in 1..Len(c.trees) : sat[t] })>>)
     /\ \A j \in { l \in 1..Len(c.rows) : vs[l] \notin {"OK", "UNJUDGED"} } : PrintT(<<"MISMATCH", c.id, j, vs[j]>>)
Judged == i >= 1 => JudgeCase(i)
=============================================================================
