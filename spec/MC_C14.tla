------------------------------ MODULE MC_C14 ------------------------------
(***************************************************************************)
(* C14: helpers that build trees to a target meet the target.              *)
(*  - Gen   : (a) the grid nonterminal x length 0..L of a grammar, each     *)
(*            with the information whether a string of that length exists  *)
(*            (length sets by Kleene iteration; used only for the           *)
(*            completeness diagnostic);  (b) open trees (prunings of the    *)
(*            trees of each root nonterminal up to a bound) for the count   *)
(*            predicate, each with the needle counts it already has.        *)
(*  - Judge : rows of kind "fixedlen" (create_fixed_length_tree),           *)
(*            "count" (completion proposed by count) and "numeric"          *)
(*            (tree built for an integer model value) are judged with       *)
(*            Relations!FixedLenStep / CountCompleteStep / NumericParseStep.*)
(***************************************************************************)
EXTENDS Relations, SequencesExt, Json, IOUtils
Data == JsonDeserialize(IOEnv.CASE_FILE)

VARIABLES done, i

(* ---- lengths of the strings a nonterminal derives, up to L ------------ *)
RECURSIVE AltLens(_, _, _)
AltLens(alt, cur, L) ==
  IF alt = <<>> THEN {0}
  ELSE LET hs == IF Head(alt).nt THEN cur[Head(alt).n] ELSE { Len(Head(alt).c) }
           rs == AltLens(Tail(alt), cur, L)
       IN { x \in { h + r : h \in hs, r \in rs } : x <= L }
LenStep(G, cur, L) == [N \in DOMAIN G |-> UNION { AltLens(G[N][a], cur, L) : a \in 1..Len(G[N]) }]
RECURSIVE LenFix(_, _, _)
LenFix(G, cur, L) == LET nxt == LenStep(G, cur, L) IN IF nxt = cur THEN cur ELSE LenFix(G, nxt, L)
LensUpTo(G, L) == LenFix(G, [N \in DOMAIN G |-> {}], L)

GenGrid ==
  LET ls == LensUpTo(Data.g, Data.L)
  IN SetToSeq({ [nt |-> N, len |-> l, feasible |-> l \in ls[N]] : N \in DOMAIN Data.g, l \in 0..Data.L })
GenOpen(N) == { t \in UNION { Prunings(u) : u \in TreesN(Data.g, SymNT(N), Data.pdepth, Data.pnodes) } : IsOpenTree(t) }
GInit == /\ done = JsonSerialize(IOEnv.OUT_FILE,
                     [grid |-> GenGrid,
                      open |-> [N \in { Data.roots[j] : j \in 1..Len(Data.roots) } |-> SetToSeq(GenOpen(N))]])
         /\ i = 0
GNext == UNCHANGED <<done, i>>

(* ---------------- Judge ------------------------------------------------ *)
(* Data.gs: grammars; Data.rows[k] = [id, gi, kind, ...]                    *)
(*   fixedlen: nt, len, r = [none, t]                                       *)
(*   count   : arg (open tree), needle, num, t (proposed tree)              *)
(*   numeric : nt, v, t                                                     *)
JInit == i = 0 /\ done = TRUE
JNext == i < Len(Data.rows) /\ i' = i + 1 /\ UNCHANGED done

RowWhy(r) ==
  LET G == Data.gs[r.gi] IN
  CASE r.kind = "fixedlen" -> FixedLenWhy(G, r.nt, r.len, r.r)
    [] r.kind = "count"    -> CountCompleteWhy(G, r.arg, r.needle, r.num, r.t)
    [] r.kind = "numeric"  -> NumericParseWhy(G, r.nt, r.v, r.t)
RowOK(r) ==
  LET G == Data.gs[r.gi] IN
  CASE r.kind = "fixedlen" -> FixedLenStep(G, r.nt, r.len, r.r)
    [] r.kind = "count"    -> CountCompleteStep(G, r.arg, r.needle, r.num, r.t)
    [] r.kind = "numeric"  -> NumericParseStep(G, r.nt, r.v, r.t)
(* diagnostics: fixedlen -> a result exists; count -> the proposal extends  *)
(* the argument (argument is a prefix of it); numeric -> TRUE               *)
RowInfo(r) ==
  CASE r.kind = "fixedlen" -> ~r.r.none
    [] r.kind = "count"    -> IsTreePrefix(r.arg, r.t)
    [] r.kind = "numeric"  -> TRUE
(* the count rows' inputs must be what the property quantifies over *)
RowInputOK(r) ==
  LET G == Data.gs[r.gi] IN
  CASE r.kind = "count" -> ValidTree(G, r.arg) /\ IsOpenTree(r.arg) /\ r.needle \in DOMAIN G
    [] OTHER -> r.nt \in DOMAIN G

JudgeRow(k) ==
  LET r == Data.rows[k]
  IN PrintT(<<"ROW", r.id, IF RowOK(r) THEN "OK" ELSE RowWhy(r), RowInfo(r), RowInputOK(r)>>)
Judged == i >= 1 => JudgeRow(i)
=============================================================================
