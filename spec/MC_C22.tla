------------------------------ MODULE MC_C22 ------------------------------
(***************************************************************************)
(* C22: solving is reproducible for a fixed seed -- a 2-safety property,    *)
(* reduced to equality of the outcome sequences of two runs recorded in     *)
(* two fresh interpreters (same hash seed, same random seed, same grammar,  *)
(* constraint and settings).  Both runs are separately validated against    *)
(* SolverTrace (so "both crash identically" is not accepted).               *)
(* outcome = [k |-> "ret", tree] | [k |-> "stop"] | [k |-> "timeout"] | [k |-> "error", exc] *)
(***************************************************************************)
EXTENDS Trees, Json, IOUtils
Pairs == JsonDeserialize(IOEnv.CASE_FILE).pairs
VARIABLE i
Init == i = 0
Next == i < Len(Pairs) /\ i' = i + 1
SameOutcome(x, y) == x.k = y.k /\ (x.k = "ret" => Shape(x.tree) = Shape(y.tree)) /\ (x.k = "error" => x.exc = y.exc)
Diverge(p) == IF Len(p.a) # Len(p.b) THEN 0
              ELSE LET bad == { j \in 1..Len(p.a) : ~SameOutcome(p.a[j], p.b[j]) }
                   IN IF bad = {} THEN -1 ELSE CHOOSE j \in bad : \A k \in bad : j <= k
Judged == i >= 1 => PrintT(<<"PAIR", Pairs[i].id, Diverge(Pairs[i]), Len(Pairs[i].a)>>)
=============================================================================
