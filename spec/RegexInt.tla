------------------------------ MODULE RegexInt ------------------------------
(***************************************************************************)
(* Integers denoted by the strings a regular expression matches (C15).     *)
(*   numeral  ::= sign? 0* digits        (sign is + or -)                  *)
(*   IntVal(s) is the integer a numeral denotes ("-0" and "+007" are       *)
(*   numerals: 0 and 7).  Strings that are not numerals denote nothing.    *)
(*   An interval is [lo, hi, loinf, hiinf]; an infinite bound ignores the  *)
(*   number stored with it.                                                *)
(* Regular expressions are RegLan terms of module SmtLib; membership is    *)
(* SmtLib!Matches.                                                         *)
(***************************************************************************)
EXTENDS SmtLib

NoEnv == [x \in {} |-> <<>>]
SignChar(c) == c = 43 \/ c = 45
NumBody(s) == IF Len(s) > 0 /\ SignChar(s[1]) THEN Tail(s) ELSE s
WellFormedNumeral(s) == IsDigits(NumBody(s))
RECURSIVE StripZeros(_)
StripZeros(s) == IF Len(s) > 1 /\ s[1] = 48 THEN StripZeros(Tail(s)) ELSE s
(* the value fits TLC's 32-bit integers *)
NumeralInRange(s) == Len(StripZeros(NumBody(s))) <= 9
IntVal(s) ==
  LET m == DigitsVal(StripZeros(NumBody(s)))
  IN IF Len(s) > 0 /\ s[1] = 45 THEN -m ELSE m

CoveredBy(I, v) ==
  \E k \in 1..Len(I) : (I[k].loinf \/ I[k].lo <= v) /\ (I[k].hiinf \/ v <= I[k].hi)

(* ---- strings ---------------------------------------------------------- *)
RECURSIVE StringsOfLen(_, _)
StringsOfLen(Sigma, n) ==
  IF n = 0 THEN { <<>> } ELSE { <<c>> \o t : c \in Sigma, t \in StringsOfLen(Sigma, n - 1) }
StringsUpTo(Sigma, L) == UNION { StringsOfLen(Sigma, n) : n \in 0..L }
NumeralAlphabet == {43, 45} \cup (48..57)

(* integers denoted by the numerals of S that r matches *)
IntsOf(r, S) ==
  { IntVal(s) : s \in { t \in S : WellFormedNumeral(t) /\ NumeralInRange(t) /\ Matches(t, r, NoEnv) } }

(* ---- numerals of a given value ---------------------------------------- *)
RECURSIVE ZeroPad(_)
ZeroPad(j) == IF j <= 0 THEN <<>> ELSE <<48>> \o ZeroPad(j - 1)
SignsFor(v) == IF v < 0 THEN { <<45>> } ELSE IF v > 0 THEN { <<>>, <<43>> } ELSE { <<>>, <<43>>, <<45>> }
Numeral(sg, j, v) == sg \o ZeroPad(j) \o NatToStr(Abs(v))
(* all numerals denoting v with at most J padding zeros; every numeral of  *)
(* value v has this form for some j                                        *)
NumeralsOf(v, J) == { Numeral(sg, j, v) : sg \in SignsFor(v), j \in 0..J }
HasWitness(r, v, J) ==
  \E j \in 0..J : \E sg \in SignsFor(v) : Matches(Numeral(sg, j, v), r, NoEnv)

(* ---- how much padding has to be tried ---------------------------------- *)
(* For expressions built from literals, ranges, union, concatenation, star, *)
(* plus and option, the position automaton has Positions(r)+1 states.  If a *)
(* numeral sign 0^j d with j > Positions(r)+1 is accepted, some state       *)
(* repeats inside the run over the zeros and the cycle can be cut out:      *)
(* a numeral of the same value with fewer (but at least one) padding zeros  *)
(* is accepted as well.  Hence "no numeral of value v with at most          *)
(* PaddingBound(r) padding zeros matches" means that no numeral of value v  *)
(* matches at all.                                                          *)
PumpOps == {"str.to_re", "re.range", "re.union", "re.++", "re.*", "re.+", "re.opt"}
RECURSIVE PumpSafe(_), Positions(_)
PumpSafe(r) ==
  /\ r.k = "app" /\ r.f \in PumpOps
  /\ IF r.f \in {"str.to_re", "re.range"} THEN \A j \in 1..Len(r.args) : r.args[j].k = "str"
     ELSE \A j \in 1..Len(r.args) : PumpSafe(r.args[j])
Positions(r) ==
  IF r.f = "str.to_re" THEN Len(r.args[1].s)
  ELSE IF r.f = "re.range" THEN 1
  ELSE LET RECURSIVE S(_)
           S(j) == IF j > Len(r.args) THEN 0 ELSE Positions(r.args[j]) + S(j + 1)
       IN S(1)
PaddingBound(r) == Positions(r) + 1
=============================================================================
