------------------------------ MODULE Formats ------------------------------
(***************************************************************************)
(* Independent validity predicates for the four formalizations shipped     *)
(* with ISLa (C21).  They are written against the *formats* (what a CSV    *)
(* reader, an XML parser with namespaces, the reST mark-up rules and a tar *)
(* header mean), not against ISLa's grammars or constraints, and judge the *)
(* output text only.  Text is a sequence of code points.                   *)
(*                                                                         *)
(* Every predicate is a single left-to-right scan with accumulators        *)
(* (index + state), so the cost is linear in the length of the text apart  *)
(* from copying accumulators.                                              *)
(*                                                                         *)
(* NOT covered: "docutils renders the reST text without errors" -- an      *)
(* external renderer cannot be expressed here; only the four rule families *)
(* underline length / link targets defined / link targets unique /         *)
(* enumeration numbering are claimed for reST.                             *)
(***************************************************************************)
EXTENDS Integers, Sequences, FiniteSets

NUL == 0
TAB == 9
LF == 10
SPACE == 32
DQUOTE == 34
DASH == 45
DOT == 46
SLASH == 47
COLON == 58
SEMI == 59
LT == 60
EQ == 61
GT == 62
USCORE == 95

IsSpaceCh(c) == c \in {9, 10, 11, 12, 13, 32}
IsDigitCh(c) == c \in 48..57
IsAlnumCh(c) == c \in 48..57 \/ c \in 65..90 \/ c \in 97..122
SetMin(S) == CHOOSE x \in S : \A y \in S : x <= y
SetMax0(S) == IF S = {} THEN 0 ELSE CHOOSE x \in S : \A y \in S : x >= y
StartsWith(l, p) == Len(l) >= Len(p) /\ \A k \in 1..Len(p) : l[k] = p[k]

(* lines as index pairs <<from, to>> into the text (to = from - 1 for an empty line) *)
RECURSIVE LineSpans(_, _, _, _)
LineSpans(t, i, from, acc) ==
  IF i > Len(t) THEN Append(acc, <<from, Len(t)>>)
  ELSE IF t[i] = LF THEN LineSpans(t, i + 1, i + 1, Append(acc, <<from, i - 1>>))
  ELSE LineSpans(t, i + 1, from, acc)
Lines(t) == LET sp == LineSpans(t, 1, 1, <<>>) IN [k \in 1..Len(sp) |-> SubSeq(t, sp[k][1], sp[k][2])]

(* ======================================================================== *)
(* CSV: records end at a line break outside quotes, fields are separated by *)
(* `sep` outside quotes; valid iff quotes are balanced and every record has *)
(* the same number of fields.                                               *)
RECURSIVE CsvScan(_, _, _, _, _, _, _)
CsvScan(t, sep, i, inq, nsep, any, acc) ==
  IF i > Len(t) THEN [counts |-> IF any THEN Append(acc, nsep + 1) ELSE acc, openquote |-> inq]
  ELSE IF t[i] = DQUOTE THEN CsvScan(t, sep, i + 1, ~inq, nsep, TRUE, acc)
  ELSE IF inq THEN CsvScan(t, sep, i + 1, inq, nsep, TRUE, acc)
  ELSE IF t[i] = sep THEN CsvScan(t, sep, i + 1, inq, nsep + 1, TRUE, acc)
  ELSE IF t[i] = LF THEN CsvScan(t, sep, i + 1, FALSE, 0, FALSE, Append(acc, nsep + 1))
  ELSE CsvScan(t, sep, i + 1, inq, nsep, TRUE, acc)
CsvColumns(t, sep) == CsvScan(t, sep, 1, FALSE, 0, FALSE, <<>>)
CsvErrors(t, sep) ==
  LET r == CsvColumns(t, sep) IN
  (IF r.openquote THEN {"unbalanced-quote"} ELSE {})
  \cup (IF Len(r.counts) = 0 THEN {"no-record"} ELSE {})
  \cup (IF \E k \in 1..Len(r.counts) : r.counts[k] # r.counts[1] THEN {"unequal-column-counts"} ELSE {})
CsvValid(t, sep) == CsvErrors(t, sep) = {}

(* ======================================================================== *)
(* XML: a character-level machine that recognises tags, keeps the stack of  *)
(* open elements with the namespace prefixes each declares, and collects    *)
(* errors: tag balance, one root, unique attribute names per tag, every     *)
(* prefix used in an element or attribute name declared by an xmlns:prefix  *)
(* attribute of the element itself or of an enclosing element.              *)
XMLNS == <<120, 109, 108, 110, 115>>
XML_ == <<120, 109, 108>>
ColonAt(n) == LET S == { k \in 1..Len(n) : n[k] = COLON } IN IF S = {} THEN 0 ELSE SetMin(S)
PrefixOf(n) == SubSeq(n, 1, ColonAt(n) - 1)          \* only used when ColonAt(n) > 0
LocalOf(n) == SubSeq(n, ColonAt(n) + 1, Len(n))

XmlInit == [mode |-> "text", name |-> <<>>, aname |-> <<>>, attrs |-> {}, decls |-> {}, uses |-> {},
            closing |-> FALSE, stack |-> <<>>, errs |-> {}, roots |-> 0, tags |-> 0, nsuses |-> 0, nattrs |-> 0]
Err(st, e) == [st EXCEPT !.errs = @ \cup {e}]

StackDecls(st) == UNION { st.stack[k].decls : k \in 1..Len(st.stack) }
XmlEndTag(st, selfclosing) ==
  IF st.closing THEN
     LET ok == Len(st.stack) > 0 /\ st.stack[Len(st.stack)].name = st.name
         s1 == IF ok THEN st ELSE Err(st, "close-tag-mismatch")
         s2 == IF st.attrs # {} \/ selfclosing THEN Err(s1, "malformed-close-tag") ELSE s1
     IN [s2 EXCEPT !.mode = "text", !.tags = @ + 1,
                   !.stack = IF Len(@) > 0 THEN SubSeq(@, 1, Len(@) - 1) ELSE @]
  ELSE
     LET used == st.uses \cup (IF ColonAt(st.name) > 0 THEN {PrefixOf(st.name)} ELSE {})
         known == st.decls \cup StackDecls(st) \cup {XML_}
         s1 == IF st.name = <<>> THEN Err(st, "empty-tag-name") ELSE st
         s2 == IF used \subseteq known THEN s1 ELSE Err(s1, "undeclared-namespace-prefix")
         s3 == IF Len(st.stack) = 0 THEN [s2 EXCEPT !.roots = @ + 1] ELSE s2
     IN [s3 EXCEPT !.mode = "text", !.tags = @ + 1, !.nsuses = @ + Cardinality(used),
                   !.stack = IF selfclosing THEN @ ELSE Append(@, [name |-> st.name, decls |-> st.decls])]

XmlEndAttrName(st) ==
  LET a == st.aname
      s1 == IF a \in st.attrs THEN Err(st, "duplicate-attribute") ELSE st
      s2 == IF a = <<>> THEN Err(s1, "empty-attribute-name") ELSE s1
      c == ColonAt(a)
  IN [s2 EXCEPT !.attrs = @ \cup {a}, !.mode = "aftereq", !.nattrs = @ + 1,
                !.decls = IF c > 0 /\ PrefixOf(a) = XMLNS THEN @ \cup {LocalOf(a)} ELSE @,
                !.uses = IF c > 0 /\ PrefixOf(a) # XMLNS THEN @ \cup {PrefixOf(a)} ELSE @]

XmlStep(st, ch) ==
  CASE st.mode = "text" ->
         IF ch = LT THEN [st EXCEPT !.mode = "tagstart", !.name = <<>>, !.aname = <<>>, !.attrs = {}, !.decls = {},
                                    !.uses = {}, !.closing = FALSE]
         ELSE IF Len(st.stack) = 0 /\ ~IsSpaceCh(ch) THEN Err(st, "text-outside-root")
         ELSE st
    [] st.mode = "tagstart" ->
         IF ch = SLASH THEN [st EXCEPT !.closing = TRUE, !.mode = "name"]
         ELSE IF ch \in {GT, SPACE, LT} THEN Err([st EXCEPT !.mode = "text"], "empty-tag-name")
         ELSE [st EXCEPT !.mode = "name", !.name = <<ch>>]
    [] st.mode = "name" ->
         IF ch = SPACE THEN [st EXCEPT !.mode = "intag"]
         ELSE IF ch = SLASH THEN [st EXCEPT !.mode = "selfclose"]
         ELSE IF ch = GT THEN XmlEndTag(st, FALSE)
         ELSE IF ch = LT THEN Err(st, "lt-in-tag")
         ELSE [st EXCEPT !.name = Append(@, ch)]
    [] st.mode = "intag" ->
         IF ch = SPACE THEN st
         ELSE IF ch = SLASH THEN [st EXCEPT !.mode = "selfclose"]
         ELSE IF ch = GT THEN XmlEndTag(st, FALSE)
         ELSE IF ch = LT THEN Err(st, "lt-in-tag")
         ELSE [st EXCEPT !.mode = "attrname", !.aname = <<ch>>]
    [] st.mode = "attrname" ->
         IF ch = EQ THEN XmlEndAttrName(st)
         ELSE IF ch \in {SPACE, GT, SLASH, LT, DQUOTE} THEN Err([st EXCEPT !.mode = IF ch = GT THEN "text" ELSE "intag"], "attribute-without-value")
         ELSE [st EXCEPT !.aname = Append(@, ch)]
    [] st.mode = "aftereq" ->
         IF ch = DQUOTE THEN [st EXCEPT !.mode = "attrval"]
         ELSE Err([st EXCEPT !.mode = IF ch = GT THEN "text" ELSE "intag"], "unquoted-attribute-value")
    [] st.mode = "attrval" ->
         IF ch = DQUOTE THEN [st EXCEPT !.mode = "intag"]
         ELSE IF ch = LT THEN Err(st, "lt-in-attribute-value")
         ELSE st
    [] st.mode = "selfclose" ->
         IF ch = GT THEN XmlEndTag(st, TRUE)
         ELSE Err([st EXCEPT !.mode = "intag"], "malformed-empty-element-tag")

RECURSIVE XmlRun(_, _, _)
XmlRun(t, i, st) == IF i > Len(t) THEN st ELSE XmlRun(t, i + 1, XmlStep(st, t[i]))
XmlFinal(t) == XmlRun(t, 1, XmlInit)
XmlErrors(t) ==
  LET st == XmlFinal(t) IN
  st.errs \cup (IF st.mode # "text" THEN {"unterminated-tag"} ELSE {})
          \cup (IF Len(st.stack) > 0 THEN {"unclosed-element"} ELSE {})
          \cup (IF st.roots # 1 THEN {"not-exactly-one-root"} ELSE {})
XmlValid(t) == XmlErrors(t) = {}

(* ======================================================================== *)
(* reST rules, on the lines of the text.                                    *)
(*  - a line made only of '=' or only of '-' directly below a non-blank,    *)
(*    unindented line that starts a block (first line, or preceded by a     *)
(*    blank line) is a section underline; it must be at least as long as    *)
(*    the title (right-stripped).  reST itself treats an underline shorter  *)
(*    than 4 characters *and* shorter than the title as ordinary text, so   *)
(*    that case is no title and no error.                                   *)
(*  - `.. _name:` lines define link targets; names must be unique.          *)
(*  - `name_` (an underscore after a word, outside target lines) refers to  *)
(*    a target that must be defined.                                        *)
(*  - lines `N. text` are enumeration items; directly consecutive item      *)
(*    lines must be numbered N, N+1 with N >= 1.                            *)
IsBlankLine(l) == \A k \in 1..Len(l) : IsSpaceCh(l[k])
IsUnderlineLine(l) == Len(l) >= 1 /\ ((\A k \in 1..Len(l) : l[k] = EQ) \/ (\A k \in 1..Len(l) : l[k] = DASH))
RStripLen(l) == SetMax0({ k \in 1..Len(l) : ~IsSpaceCh(l[k]) })
TitleAt(ls, k) ==       \* line k can be a section title (its underline would be line k+1)
  /\ k >= 1 /\ k < Len(ls)
  /\ ~IsBlankLine(ls[k]) /\ ~IsSpaceCh(ls[k][1]) /\ ~IsUnderlineLine(ls[k])
  /\ (k = 1 \/ IsBlankLine(ls[k - 1]))
  /\ IsUnderlineLine(ls[k + 1])
UnderlineErrors(ls) ==
  IF \E k \in 1..Len(ls) : TitleAt(ls, k) /\ Len(ls[k + 1]) < RStripLen(ls[k]) /\ Len(ls[k + 1]) >= 4
  THEN {"text:underline-too-short"} ELSE {}
TitleCount(ls) == Cardinality({ k \in 1..Len(ls) : TitleAt(ls, k) /\ Len(ls[k + 1]) >= RStripLen(ls[k]) })

LabelPrefix == <<DOT, DOT, SPACE, USCORE>>
IsLabelLine(l) == StartsWith(l, LabelPrefix) /\ Len(l) >= 6 /\ l[Len(l)] = COLON
LabelName(l) == SubSeq(l, 5, Len(l) - 1)
LabelLines(ls) == { k \in 1..Len(ls) : IsLabelLine(ls[k]) }
LabelNames(ls) == { LabelName(ls[k]) : k \in LabelLines(ls) }
LabelErrors(ls) ==
  IF \E j, k \in LabelLines(ls) : j # k /\ LabelName(ls[j]) = LabelName(ls[k]) THEN {"text:duplicate-link-target"} ELSE {}

(* the word that ends with the underscore at position k of line l *)
RefName(l, k) == LET j == SetMax0({ m \in 1..(k - 1) : ~IsAlnumCh(l[m]) }) IN SubSeq(l, j + 1, k - 1)
RefsOfLine(l) ==
  IF IsLabelLine(l) THEN {}
  ELSE { RefName(l, k) : k \in { m \in 1..Len(l) : l[m] = USCORE /\ m > 1 /\ IsAlnumCh(l[m - 1]) } }
RefNames(ls) == UNION { RefsOfLine(ls[k]) : k \in 1..Len(ls) }
RefErrors(ls) == IF RefNames(ls) \subseteq LabelNames(ls) THEN {} ELSE {"text:undefined-link-target"}

(* number of an enumeration item line: digits, '.', ' ' ; -1 if the line is none; -2 if too large for TLC *)
DigitsLen(l) == LET S == { k \in 1..Len(l) : ~IsDigitCh(l[k]) } IN IF S = {} THEN Len(l) ELSE SetMin(S) - 1
RECURSIVE DecVal(_, _, _)
DecVal(l, k, acc) == IF k = 0 THEN acc ELSE DecVal(l, k - 1, acc) * 10 + (l[k] - 48)
ItemNumber(l) ==
  LET d == DigitsLen(l) IN
  IF d = 0 \/ Len(l) < d + 2 \/ l[d + 1] # DOT \/ l[d + 2] # SPACE THEN -1
  ELSE IF d > 9 THEN -2 ELSE DecVal(l, d, 0)
EnumErrors(ls) ==
  IF \E k \in 1..(Len(ls) - 1) :
        LET a == ItemNumber(ls[k]) b == ItemNumber(ls[k + 1]) IN a >= 0 /\ b >= 0 /\ ~(b = a + 1 /\ a >= 1)
  THEN {"text:enumeration-not-consecutive"} ELSE {}
EnumOutOfRange(ls) == \E k \in 1..Len(ls) : ItemNumber(ls[k]) = -2
EnumPairs(ls) == Cardinality({ k \in 1..(Len(ls) - 1) : ItemNumber(ls[k]) >= 0 /\ ItemNumber(ls[k + 1]) >= 0 })

RestTextErrors(t) ==
  LET ls == Lines(t) IN UnderlineErrors(ls) \cup LabelErrors(ls) \cup RefErrors(ls) \cup EnumErrors(ls)

(* The same four rules on the elements the generator itself says it emitted  *)
(* (s = [titles: Seq(<<title, underline>>), labels: Seq(name), refs:         *)
(* Seq(name), enums: Seq(Seq(number text))], read off the derivation tree by *)
(* node label).  Here a title is a title whatever its length.                *)
NumVal(n) == IF Len(n) > 9 THEN -2 ELSE DecVal(n, Len(n), 0)
RestStructErrors(s) ==
  (IF \E k \in 1..Len(s.titles) : Len(s.titles[k][2]) < Len(s.titles[k][1]) THEN {"tree:underline-too-short"} ELSE {})
  \cup (IF \E j, k \in 1..Len(s.labels) : j # k /\ s.labels[j] = s.labels[k] THEN {"tree:duplicate-link-target"} ELSE {})
  \cup (IF \E k \in 1..Len(s.refs) : \A j \in 1..Len(s.labels) : s.labels[j] # s.refs[k] THEN {"tree:undefined-link-target"} ELSE {})
  \cup (IF \E e \in 1..Len(s.enums) : \E k \in 1..(Len(s.enums[e]) - 1) :
            LET a == NumVal(s.enums[e][k]) b == NumVal(s.enums[e][k + 1]) IN a # -2 /\ b # -2 /\ ~(b = a + 1 /\ a >= 1)
        THEN {"tree:enumeration-not-consecutive"} ELSE {})
RestStructOutOfRange(s) == \E e \in 1..Len(s.enums) : \E k \in 1..Len(s.enums[e]) : Len(s.enums[e][k]) > 9

(* ======================================================================== *)
(* simple TAR: entries of 216 bytes = name[100] checksum[8] typeflag[1]     *)
(* linkname[100] "CONTENT".                                                 *)
ENTRY == 216
CONTENT == <<67, 79, 78, 84, 69, 78, 84>>
Field(t, base, from, to) == SubSeq(t, base + from, base + to)
(* number of leading non-NUL bytes; the rest of the field must be NUL *)
NameLen(f) == LET z == { k \in 1..Len(f) : f[k] = NUL } IN IF z = {} THEN Len(f) ELSE SetMin(z) - 1
NulPadded(f) == \A k \in (NameLen(f) + 1)..Len(f) : f[k] = NUL
NameOf(f) == SubSeq(f, 1, NameLen(f))
RECURSIVE SumBytes(_, _, _, _)
SumBytes(t, from, to, acc) == IF from > to THEN acc ELSE SumBytes(t, from + 1, to, acc + t[from])
RECURSIVE OctVal(_, _, _)
OctVal(f, k, acc) == IF k > Len(f) THEN acc ELSE OctVal(f, k + 1, acc * 8 + (f[k] - 48))
TarEntryErrors(t, e, names) ==
  LET base == (e - 1) * ENTRY
      name == Field(t, base, 1, 100)
      chk == Field(t, base, 101, 108)
      flag == t[base + 109]
      link == Field(t, base, 110, 209)
      cont == Field(t, base, 210, 216)
      (* byte sum of the 209 header bytes with the checksum field read as 8 spaces *)
      sum == SumBytes(t, base + 1, base + 100, 0) + 8 * SPACE + SumBytes(t, base + 109, base + 209, 0)
      digitsOK == \A k \in 1..6 : chk[k] \in 48..55
  IN (IF NameLen(name) >= 1 /\ NulPadded(name) THEN {} ELSE {"name-field"})
     \cup (IF NulPadded(link) THEN {} ELSE {"linkname-field"})
     \cup (IF digitsOK /\ chk[7] = NUL /\ chk[8] = SPACE THEN {} ELSE {"checksum-format"})
     \cup (IF digitsOK /\ OctVal(SubSeq(chk, 1, 6), 1, 0) # sum THEN {"checksum-value"} ELSE {})
     \cup (IF flag \in {48, 50} THEN {} ELSE {"typeflag"})
     \cup (IF cont = CONTENT THEN {} ELSE {"content"})
     \cup (IF flag = 50 /\ NulPadded(link) /\ NameLen(link) >= 1 /\ NameOf(link) \notin names THEN {"link-target-missing"} ELSE {})
TarErrors(t) ==
  IF Len(t) = 0 \/ Len(t) % ENTRY # 0 THEN {"length"}
  ELSE IF \E k \in 1..Len(t) : t[k] > 255 THEN {"not-bytes"}
  ELSE LET n == Len(t) \div ENTRY
           names == { NameOf(Field(t, (e - 1) * ENTRY, 1, 100)) : e \in 1..n }
       IN UNION { TarEntryErrors(t, e, names) : e \in 1..n }
TarValid(t) == TarErrors(t) = {}
TarLinks(t) == IF Len(t) = 0 \/ Len(t) % ENTRY # 0 THEN 0
               ELSE Cardinality({ e \in 1..(Len(t) \div ENTRY) : t[(e - 1) * ENTRY + 109] = 50 /\ t[(e - 1) * ENTRY + 110] # NUL })
=============================================================================
