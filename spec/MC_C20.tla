------------------------------ MODULE MC_C20 ------------------------------
(***************************************************************************)
(* C20: library semantic predicates on concrete (closed) argument trees.   *)
(*  - Gen   : all closed trees rooted at the given nonterminals of a small  *)
(*            numeric / text grammar up to a height and node bound.         *)
(*  - Judge : every recorded evaluation SemanticPredicate.evaluate(graph,   *)
(*            args) = obs is judged with Relations!SemPredStep: the verdict *)
(*            TRUE exactly when the documented relation holds, FALSE only   *)
(*            when it does not, and a proposed replacement is a valid tree  *)
(*            of the replaced argument's nonterminal establishing the       *)
(*            relation (for justify/crop: spelling the justified/cropped    *)
(*            text).                                                        *)
(***************************************************************************)
EXTENDS Relations, SequencesExt, Json, IOUtils
Data == JsonDeserialize(IOEnv.CASE_FILE)

VARIABLES done, i

GInit == /\ done = JsonSerialize(IOEnv.OUT_FILE,
                     [trees |-> [N \in { Data.roots[j] : j \in 1..Len(Data.roots) } |->
                                   SetToSeq(TreesN(Data.g, SymNT(N), Data.depth, Data.nodes))]])
         /\ i = 0
GNext == UNCHANGED <<done, i>>

(* ---------------- Judge ------------------------------------------------ *)
(* Data.gs: grammars; Data.rows[k] = [id, gi, name, a, obs]  (Relations)    *)
JInit == i = 0 /\ done = TRUE
JNext == i < Len(Data.rows) /\ i' = i + 1 /\ UNCHANGED done

(* does the documented relation hold on the given arguments ("NA" when an  *)
(* argument is a variable)                                                 *)
RelHolds(name, a) ==
  CASE name = "count" -> IF a.numvar THEN "NA" ELSE IF CountRel(a.t, a.needle, a.num) THEN "T" ELSE "F"
    [] name = "octal_to_decimal" -> IF a.ovar \/ a.dvar THEN "NA" ELSE IF OctalRel(Yield(a.o), Yield(a.d)) THEN "T" ELSE "F"
    [] OTHER -> IF a.wvar THEN "NA" ELSE IF WidthRel(name, Yield(a.t), a.w) THEN "T" ELSE "F"
(* the arguments are what the property quantifies over: closed valid trees *)
ArgsOK(G, name, a) ==
  CASE name = "octal_to_decimal" -> (a.ovar \/ GoodTree(G, a.o, a.ont)) /\ (a.dvar \/ GoodTree(G, a.d, a.dnt))
    [] OTHER -> ClosedT(a.t) /\ ValidTree(G, a.t) /\ a.t.nt

JudgeRow(k) ==
  LET r == Data.rows[k]
      G == Data.gs[r.gi]
      why == SemPredWhy(G, r.name, r.a, r.obs)
  IN PrintT(<<"ROW", r.id, IF SemPredStep(G, r.name, r.a, r.obs) /\ why \notin Undecided THEN "OK" ELSE why,
              RelHolds(r.name, r.a), ArgsOK(G, r.name, r.a)>>)
Judged == i >= 1 => JudgeRow(i)
=============================================================================
