---------------------------- MODULE TreeObject ----------------------------
(***************************************************************************)
(* One DerivationTree value under the public tree operations               *)
(* (replace_path, substitute, expand_one_step) and its observers.          *)
(* The abstract state is the tree itself; observers are functions of it    *)
(* (they stutter).  The implementation caches is_open, hashes, paths(),    *)
(* trie() ... inside shared sub-objects; the specification has no caches,  *)
(* which is the point: whatever order observers are called in, they must   *)
(* answer as these functions do.                                           *)
(***************************************************************************)
EXTENDS Grammars, SequencesExt, Json, IOUtils, TLCExt

Cfg == JsonDeserialize(IOEnv.TREEOBJ_CFG)   \* [g, inits: Seq(tree), lib: Seq(tree)]
G == Cfg.g
Lib == Cfg.lib
Inits == Cfg.inits
CONSTANTS MaxSteps, WithSerialize

ObsSets == { {"str", "is_open"}, {"paths", "find", "sub"}, {"trie", "subtrie"}, {"leaves", "open_leaves", "len"},
             {"shash", "is_open"}, {"str", "is_open", "paths", "find", "sub", "trie", "subtrie", "leaves", "open_leaves", "len", "shash"}, {} }

VARIABLES t,      \* the abstract tree
          used,   \* library trees already inserted (ids must stay unique)
          hist,   \* operations so far (generation only; hidden by VIEW in exhaustive runs)
          dice, chain   \* random-walk generation only (see RNext)
vars == <<t, used, hist, dice, chain>>

(* ---- observers: functions of the abstract tree ----------------------- *)
ObsStr(x) == Yield(x)
ObsIsOpen(x) == IsOpenTree(x)
ObsPaths(x) == [k \in 1..Len(PreOrder(x)) |-> <<PreOrder(x)[k], Sub(x, PreOrder(x)[k]).id>>]
ObsFind(x) == { <<Sub(x, p).id, p>> : p \in PathsOf(x) }
ObsSub(x) == { <<p, Sub(x, p).id>> : p \in PathsOf(x) }
ObsSubtrie(x, p) == { <<r, Sub(x, p \o r).id>> : r \in PathsOf(Sub(x, p)) }
ObsLeaves(x) == SelectSeq(ObsPaths(x), LAMBDA e : IsLeaf(Sub(x, e[1])))
ObsOpenLeaves(x) == SelectSeq(ObsPaths(x), LAMBDA e : Sub(x, e[1]).open)
ObsLen(x) == Size(x)

(* ---- operations ------------------------------------------------------ *)
ReplaceResult(x, p, k) == TreeReplaceAt(x, p, Lib[k])
(* replace_path(..., retain_id=True): the new subtree takes over the identity of the node it replaces *)
ReplaceKeepResult(x, p, k) == TreeReplaceAt(x, p, [Lib[k] EXCEPT !.id = Sub(x, p).id])
(* substitute: every mapped node that is still present is replaced; nested *)
(* targets are not generated                                               *)
RECURSIVE SubstResult(_, _)
SubstResult(x, m) ==    \* m : sequence of <<id, k>>
  IF m = <<>> THEN x
  ELSE IF HasId(x, Head(m)[1]) THEN SubstResult(TreeReplaceAt(x, PathOfId(x, Head(m)[1]), Lib[Head(m)[2]]), Tail(m))
  ELSE SubstResult(x, Tail(m))

(* expand_one_step: every open leaf is expanded by one alternative; the    *)
(* new children are open nonterminals / terminals with fresh identities.   *)
ExpansionOf(leaf, alt, kids) ==
  /\ Len(kids) = Len(alt)
  /\ \A j \in 1..Len(alt) :
       /\ ChildMatches(alt[j], kids[j])
       /\ Len(kids[j].ch) = 0
       /\ kids[j].open = alt[j].nt
RECURSIVE IsOneStepExpansion(_, _)
IsOneStepExpansion(pre, post) ==
  /\ pre.n = post.n /\ pre.nt = post.nt /\ pre.c = post.c /\ pre.id = post.id
  /\ IF pre.open
     THEN ~post.open /\ \E a \in 1..Len(G[pre.n]) : ExpansionOf(pre, G[pre.n][a], post.ch)
     ELSE /\ ~post.open /\ Len(pre.ch) = Len(post.ch)
          /\ \A j \in 1..Len(pre.ch) : IsOneStepExpansion(pre.ch[j], post.ch[j])
NumExpansions(x) ==
  LET ops == SetToSeq(OpenPaths(x))
      RECURSIVE Prod(_)
      Prod(j) == IF j > Len(ops) THEN 1 ELSE Len(G[Sub(x, ops[j]).n]) * Prod(j + 1)
  IN IF ops = <<>> THEN 0 ELSE Prod(1)

(* ---- the state machine (used to generate behaviours) ----------------- *)
Init == /\ \E k \in 1..Len(Inits) : t = Inits[k] /\ used = {} /\ hist = <<[op |-> "Init", k |-> k]>>
        /\ dice = 0 /\ chain = 0

Fresh(k) == k \notin used /\ Ids(Lib[k]) \cap Ids(t) = {}
ReplacePath(p, k, os) ==
  /\ Fresh(k)
  /\ t' = ReplaceResult(t, p, k) /\ used' = used \cup {k}
  /\ hist' = Append(hist, [op |-> "ReplacePath", p |-> p, k |-> k, obs |-> os])
ReplacePathKeepId(p, k, os) ==
  /\ Fresh(k)
  /\ t' = ReplaceKeepResult(t, p, k) /\ used' = used \cup {k}
  /\ hist' = Append(hist, [op |-> "ReplacePathKeepId", p |-> p, k |-> k, obs |-> os])
Substitute(id, k, os) ==
  /\ Fresh(k)
  /\ t' = SubstResult(t, << <<id, k>> >>) /\ used' = used \cup {k}
  /\ hist' = Append(hist, [op |-> "Substitute", m |-> << <<id, k>> >>, obs |-> os])
Substitute2(id1, k1, id2, k2, os) ==
  /\ Fresh(k1) /\ Fresh(k2) /\ k1 # k2 /\ id1 # id2 /\ Ids(Lib[k1]) \cap Ids(Lib[k2]) = {}
  \* nested targets are allowed: the mappings are applied one after the other, a target that has
  \* disappeared by then is skipped (SubstResult)
  /\ t' = SubstResult(t, << <<id1, k1>>, <<id2, k2>> >>) /\ used' = used \cup {k1, k2}
  /\ hist' = Append(hist, [op |-> "Substitute", m |-> << <<id1, k1>>, <<id2, k2>> >>, obs |-> os])
(* the new identities are chosen by the implementation: in generation mode *)
(* the model stops after an expansion (the trace specification continues   *)
(* from the observed tree, constrained by IsOneStepExpansion)              *)
Expand(c, os) ==
  /\ OpenPaths(t) # {} /\ Size(t) <= 60
  /\ \A p \in OpenPaths(t) : Sub(t, p).n \in DOMAIN G
  /\ hist' = Append(hist, [op |-> "Expand", c |-> c, obs |-> os])
  /\ UNCHANGED <<t, used>>
Observe(os) ==
  /\ hist' = Append(hist, [op |-> "Observe", obs |-> os]) /\ UNCHANGED <<t, used>>
(* C17: serializing (JSON / pickle / the CLI's JSON parse-tree format) and computing k-path caches  *)
(* are stuttering steps: the tree and every later observer answer stay the same                       *)
SerKinds == <<"json", "pickle", "cli_json">>
SerializeOp(kind, os) ==
  /\ hist' = Append(hist, [op |-> "Serialize", kind |-> kind, obs |-> os]) /\ UNCHANGED <<t, used>>
(* k_paths() fills caches on the tree object and (called on them as well) on its subtree objects; no visible change *)
TouchKPathsOp(kk, concrete, os) ==
  /\ ValidTree(G, t)          \* k-paths are only defined for derivation trees of the grammar
  /\ hist' = Append(hist, [op |-> "TouchKPaths", kk |-> kk, concrete |-> concrete, obs |-> os]) /\ UNCHANGED <<t, used>>

AllObs == {"str", "is_open", "paths", "find", "sub", "trie", "subtrie", "leaves", "open_leaves", "len", "shash"}
Next ==
  /\ Len(hist) <= MaxSteps
  /\ hist[Len(hist)].op # "Expand"
  /\ UNCHANGED <<dice, chain>>
  /\ \E os \in {AllObs} :
       \/ \E p \in PathsOf(t), k \in 1..Len(Lib) : ReplacePath(p, k, os)
       \/ \E p \in PathsOf(t), k \in 1..Len(Lib) : ReplacePathKeepId(p, k, os)
       \/ \E id \in Ids(t), k \in 1..Len(Lib) : Substitute(id, k, os)
       \/ \E id1, id2 \in Ids(t), k1, k2 \in 1..Len(Lib) : Substitute2(id1, k1, id2, k2, os)
       \/ \E c \in 0..2 : Expand(c, os)
       \/ Observe(os)
       \/ WithSerialize /\ \E kd \in 1..3 : SerializeOp(SerKinds[kd], os)
       \/ WithSerialize /\ \E kk \in 2..3, cc \in BOOLEAN : TouchKPathsOp(kk, cc, os)
Spec == Init /\ [][Next]_vars

(* Random walks through the same actions: `dice` holds the random numbers  *)
(* for the next step, so every state has exactly one successor and TLC     *)
(* (breadth-first, one chain per initial state) generates NChains          *)
(* behaviours of MaxSteps steps each.                                      *)
CONSTANTS NChains
(* the parameter only keeps TLC from evaluating Roll once as a constant *)
Roll(z) == [kind |-> RandomElement((z - z + 1)..12), a |-> RandomElement((z - z)..9999), b |-> RandomElement((z - z)..9999),
            c |-> RandomElement((z - z)..9999), d |-> RandomElement((z - z)..9999), o |-> RandomElement((z - z)..9999)]
Pick(S, n) == SetToSeq(S)[(n % Cardinality(S)) + 1]
RInit == /\ chain \in 1..NChains /\ dice = Roll(chain)
         /\ t = Inits[(chain % Len(Inits)) + 1] /\ used = {}
         /\ hist = <<[op |-> "Init", k |-> CHOOSE k \in 1..Len(Inits) : Inits[k] = t]>>
RNext ==
  /\ Len(hist) <= MaxSteps
  /\ hist[Len(hist)].op # "Expand"
  /\ dice' = Roll(Len(hist)) /\ chain' = chain
  /\ LET os == Pick(ObsSets, dice.o)
         p == Pick(PathsOf(t), dice.a)
         k == (dice.b % Len(Lib)) + 1
         id == Pick(Ids(t), dice.a)
         id2 == Pick(Ids(t), dice.c)
         k2 == (dice.d % Len(Lib)) + 1
         canRepl == Fresh(k)
         canSub2 == /\ Fresh(k) /\ Fresh(k2) /\ k # k2 /\ id # id2 /\ Ids(Lib[k]) \cap Ids(Lib[k2]) = {}
         canExp == OpenPaths(t) # {} /\ Size(t) <= 60 /\ \A q \in OpenPaths(t) : Sub(t, q).n \in DOMAIN G
     IN IF WithSerialize /\ dice.kind \in {3, 6, 11} THEN SerializeOp(SerKinds[(dice.c % 3) + 1], os)
        ELSE IF WithSerialize /\ dice.kind \in {4, 12} /\ ValidTree(G, t) THEN TouchKPathsOp(2 + (dice.c % 2), dice.d % 2 = 0, os)
        ELSE IF dice.kind \in 1..3 /\ canRepl THEN ReplacePath(p, k, os)
        ELSE IF dice.kind \in 4..5 /\ canRepl THEN ReplacePathKeepId(p, k, os)
        ELSE IF dice.kind \in 6..7 /\ canRepl THEN Substitute(id, k, os)
        ELSE IF dice.kind \in 8..9 /\ canSub2 THEN Substitute2(id, k, id2, k2, os)
        ELSE IF dice.kind = 10 /\ canExp /\ Len(hist) >= 2 THEN Expand(dice.c % 3, os)
        ELSE Observe(os)

(* ---- theorems of the model (checked exhaustively on small constants) -- *)
IdsStayUnique == UniqueIds(t)
ReplaceFrame ==
  [][\A p \in PathsOf(t), k \in 1..Len(Lib) :
       (t' = ReplaceResult(t, p, k)) =>
          /\ Sub(t', p) = Lib[k]
          /\ \A q \in PathsOf(t) : (~PathPrefix(p, q) /\ ~PathPrefix(q, p)) => Sub(t', q) = Sub(t, q)
          /\ \A q \in PathsOf(t) : StrictPrefix(q, p) => Label(Sub(t', q)) = Label(Sub(t, q)) /\ Sub(t', q).id = Sub(t, q).id]_vars
OpenIffOpenLeaf == IsOpenTree(t) <=> OpenPaths(t) # {}
StrIsLeafConcat ==
  LET ls == LeafSeq(t)
      RECURSIVE Cat(_)
      Cat(j) == IF j > Len(ls) THEN <<>> ELSE Sub(t, ls[j]).c \o Cat(j + 1)
  IN Yield(t) = Cat(1)
View == <<t, used>>

(* generation: emit the operation history when the bound is reached *)
Emit == (Len(hist) > MaxSteps \/ hist[Len(hist)].op = "Expand") => PrintT(<<"BEHAVIOUR", ToJson(hist)>>)
=============================================================================
