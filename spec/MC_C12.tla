------------------------------ MODULE MC_C12 ------------------------------
(***************************************************************************)
(* C12: fuzzer expansions and mutations give valid trees of the same kind. *)
(*  - Gen   : all closed derivation trees of a grammar up to a height/node  *)
(*            bound (the trees to mutate) and all open trees obtained by    *)
(*            pruning the trees of a smaller bound (Grammars!Prunings: the  *)
(*            trees to complete), written out for the harness.              *)
(*  - Judge : every recorded step (pre, post) of expand_tree / mutate /     *)
(*            a mutation strategy is judged with Relations!ExpandStep or    *)
(*            Relations!MutateStep.                                         *)
(***************************************************************************)
EXTENDS Relations, SequencesExt, Json, IOUtils
Data == JsonDeserialize(IOEnv.CASE_FILE)

VARIABLES done, i

GenClosed == TreesUpTo(Data.g, Data.start, Data.depth, Data.nodes)
GenOpen == { t \in UNION { Prunings(u) : u \in TreesUpTo(Data.g, Data.start, Data.pdepth, Data.pnodes) } : IsOpenTree(t) }
GInit == /\ done = JsonSerialize(IOEnv.OUT_FILE, [closed |-> SetToSeq(GenClosed), open |-> SetToSeq(GenOpen)])
         /\ i = 0
GNext == UNCHANGED <<done, i>>

(* ---------------- Judge ------------------------------------------------ *)
(* Data.gs: grammars; Data.steps[k] = [id, gi, kind, res, pre, post]        *)
(*   kind "expand": pre open or closed, post = expand_tree(pre)             *)
(*   kind "mutate": pre closed, post = mutate(pre) or a strategy's result   *)
(*   res "ok" (post present) | "exc" (the call raised)                      *)
JInit == i = 0 /\ done = TRUE
JNext == i < Len(Data.steps) /\ i' = i + 1 /\ UNCHANGED done

StepWhy(s) ==
  LET G == Data.gs[s.gi] IN
  IF s.res = "exc" THEN "exception"
  ELSE IF s.kind = "expand" THEN ExpandWhy(G, s.pre, s.post)
  ELSE MutateWhy(G, s.pre, s.post)
StepOK(s) ==
  LET G == Data.gs[s.gi] IN
  s.res = "ok" /\ (IF s.kind = "expand" THEN ExpandStep(G, s.pre, s.post) ELSE MutateStep(G, s.pre, s.post))

JudgeStep(k) ==
  LET s == Data.steps[k]
      G == Data.gs[s.gi]
      ok == StepOK(s)
      \* the input itself must be what the property quantifies over (a machinery check)
      preok == ValidTree(G, s.pre) /\ (s.kind = "mutate" => ClosedT(s.pre))
      changed == s.res = "ok" /\ ~StructEq(s.pre, s.post)
  IN PrintT(<<"STEP", s.id, IF ok THEN "OK" ELSE StepWhy(s), preok, changed>>)
Judged == i >= 1 => JudgeStep(i)
=============================================================================
