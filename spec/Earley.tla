------------------------------- MODULE Earley -------------------------------
(***************************************************************************)
(* Earley recognition as a state machine (src/isla/parser.py: chart_parse,  *)
(* predict, scan, complete, with the nullable-prediction advance).          *)
(* State: one (grammar, input) pair chosen at Init and the chart, a set of  *)
(* items [nt, alt, dot, origin, end]: alternative `alt` of `nt`, `dot`       *)
(* symbols of it recognised in Input[origin+1 .. end].  Each step adds      *)
(* every item one application of Predict / Scan / Complete yields (the      *)
(* closure is confluent, so the order does not matter); the machine stops   *)
(* at the fixpoint.                                                          *)
(* Theorems checked by TLC over all grammars of MC_C10!Family1 and all      *)
(* inputs up to a length:                                                    *)
(*   ChartSound      every item's recognised part derives its substring      *)
(*   AcceptIffMember at the fixpoint, acceptance <=> membership in the       *)
(*                   language computed by Kleene iteration (Grammars)        *)
(* The second theorem validates the membership oracle used by C10/C11/C18    *)
(* against an independent definition.                                        *)
(***************************************************************************)
EXTENDS Grammars, SequencesExt, Json, IOUtils
Cfg == JsonDeserialize(IOEnv.EARLEY_CFG)     \* [grammars |-> Seq(grammar), inputs |-> Seq(text)]
VARIABLES g, inp, chart, done
evars == <<g, inp, chart, done>>

Item(nt, a, d, o, e) == [nt |-> nt, alt |-> a, dot |-> d, origin |-> o, end |-> e]
Rhs(G, it) == G[it.nt][it.alt]
Finished(G, it) == it.dot = Len(Rhs(G, it))
NextSym(G, it) == Rhs(G, it)[it.dot + 1]

StartItems(G) == { Item("<start>", a, 0, 0, 0) : a \in 1..Len(G["<start>"]) }

Predict(G, C) ==
  UNION { IF ~Finished(G, it) /\ NextSym(G, it).nt
          THEN { Item(NextSym(G, it).n, a, 0, it.end, it.end) : a \in 1..Len(G[NextSym(G, it).n]) }
               \cup (IF NextSym(G, it).n \in Nullable(G) THEN { [it EXCEPT !.dot = it.dot + 1] } ELSE {})
          ELSE {} : it \in C }
Scan(G, s, C) ==
  UNION { IF ~Finished(G, it) /\ ~NextSym(G, it).nt
          THEN LET c == NextSym(G, it).c IN
               IF it.end + Len(c) <= Len(s) /\ SubSeq(s, it.end + 1, it.end + Len(c)) = c
               THEN { [it EXCEPT !.dot = it.dot + 1, !.end = it.end + Len(c)] } ELSE {}
          ELSE {} : it \in C }
Complete(G, C) ==
  UNION { IF Finished(G, it)
          THEN { [p EXCEPT !.dot = p.dot + 1, !.end = it.end] :
                   p \in { q \in C : q.end = it.origin /\ ~Finished(G, q) /\ NextSym(G, q).nt /\ NextSym(G, q).n = it.nt } }
          ELSE {} : it \in C }
Step(G, s, C) == C \cup Predict(G, C) \cup Scan(G, s, C) \cup Complete(G, C)

Init == /\ \E k \in 1..Len(Cfg.grammars) : g = Cfg.grammars[k]
        /\ \E k \in 1..Len(Cfg.inputs) : inp = Cfg.inputs[k]
        /\ chart = StartItems(g) /\ done = FALSE
Next == /\ ~done
        /\ chart' = Step(g, inp, chart)
        /\ done' = (chart' = chart)
        /\ UNCHANGED <<g, inp>>
Spec == Init /\ [][Next]_evars

Accepts == \E it \in chart : it.nt = "<start>" /\ it.origin = 0 /\ it.end = Len(inp) /\ Finished(g, it)

(* the recognised prefix of an item derives its substring *)
RECURSIVE DerivesSeq(_, _, _)
DerivesSeq(lang, syms, w) ==      \* w in L(syms[1]) ... L(syms[n]), for w up to the Kleene bound
  IF syms = <<>> THEN w = <<>>
  ELSE \E k \in 0..Len(w) :
         /\ (IF Head(syms).nt THEN SubSeq(w, 1, k) \in lang[Head(syms).n] ELSE SubSeq(w, 1, k) = Head(syms).c)
         /\ DerivesSeq(lang, Tail(syms), SubSeq(w, k + 1, Len(w)))
Lang == LangUpTo(g, Len(inp))
ChartSound == \A it \in chart : DerivesSeq(Lang, SubSeq(Rhs(g, it), 1, it.dot), SubSeq(inp, it.origin + 1, it.end))
ChartMonotone == [][chart \subseteq chart']_evars
AcceptIffMember == done => (Accepts <=> inp \in Lang["<start>"])
=============================================================================
