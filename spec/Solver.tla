------------------------------- MODULE Solver -------------------------------
(***************************************************************************)
(* One ISLaSolver object behind its public method solve()                  *)
(* (src/isla/solver.py, solve / process_new_state /                        *)
(* state_is_valid_or_enqueue).  One action per critical section:           *)
(*   Call            enter solve(); the start time is latched on the first *)
(*                   call when a timeout is configured                     *)
(*   TimeoutCheck    top of the loop, queue non-empty, clock - start > tmo *)
(*   ReturnBuffered  top of the loop, a solution is buffered               *)
(*   Pop(s)          the cheapest state leaves the queue                   *)
(*   AdmitSolution / AdmitEnqueue / AdmitDiscard                           *)
(*                   the four exits of state_is_valid_or_enqueue for each  *)
(*                   successor the elimination rules produce               *)
(*   ProbeBegin / ProbeSat / ProbeUnsat / ProbeTimeout                     *)
(*                   the unsat-support probe: queue, buffer, start time and *)
(*                   timeout are saved, solve() is called recursively with  *)
(*                   a 2-second timeout, and everything is restored         *)
(*   AfterLoopReturn / RaiseStop   after the loop (queue empty)            *)
(*   Tick            the environment: the wall clock advances               *)
(* State ids and solution ids are abstract naturals.                       *)
(***************************************************************************)
EXTENDS Integers, Sequences, FiniteSets, TLC
CONSTANTS MaxId,       \* bound on fresh ids (exhaustive runs)
          MaxClock, MaxCalls,
          Timeout,     \* configured timeout_seconds, NoTimeout = none
          Monotone,    \* the clock never steps back
          Probes,      \* activate_unsat_support
          ProbeTimeoutEscapes,  \* historical behaviour (before the fix recorded in known_findings.json):
                                \* the probe's TimeoutError left the user's solve() call
          InitStates   \* number of states the constructor enqueues
NoTimeout == -1
None == -1

VARIABLES queue, buffer, cur, pc, last, clock, start, tmo, calls, depth, saved, nextId,
          admitted, returned     \* history (solutions admitted / returned by top-level calls)
vars == <<queue, buffer, cur, pc, last, clock, start, tmo, calls, depth, saved, nextId, admitted, returned>>

Init == /\ queue = 1..InitStates /\ buffer = <<>> /\ cur = None /\ pc = "outside" /\ last = "none"
        /\ clock = 0 /\ start = None /\ tmo = Timeout /\ calls = 0 /\ depth = 0 /\ saved = <<>>
        /\ nextId = InitStates + 1 /\ admitted = <<>> /\ returned = <<>>

TimedOut == tmo # NoTimeout /\ clock - start > tmo

Call == /\ pc = "outside" /\ calls < MaxCalls
        /\ pc' = "loop" /\ calls' = calls + 1
        /\ start' = IF tmo # NoTimeout /\ start = None THEN clock ELSE start
        /\ UNCHANGED <<queue, buffer, cur, last, clock, tmo, depth, saved, nextId, admitted, returned>>

(* ---- exits of a top-level call ----------------------------------------- *)
TimeoutCheck == /\ pc = "loop" /\ depth = 0 /\ queue # {} /\ TimedOut
                /\ pc' = "outside" /\ last' = "timeout" /\ cur' = None
                /\ UNCHANGED <<queue, buffer, clock, start, tmo, calls, depth, saved, nextId, admitted, returned>>
ReturnTop == /\ pc = "loop" /\ depth = 0 /\ buffer # <<>> /\ (queue = {} \/ ~TimedOut)
             /\ returned' = Append(returned, Head(buffer)) /\ buffer' = Tail(buffer)
             /\ pc' = "outside" /\ last' = "ret" /\ cur' = None
             /\ UNCHANGED <<queue, clock, start, tmo, calls, depth, saved, nextId, admitted>>
RaiseStop == /\ pc = "loop" /\ depth = 0 /\ queue = {} /\ buffer = <<>>
             /\ pc' = "outside" /\ last' = "stop" /\ cur' = None
             /\ UNCHANGED <<queue, buffer, clock, start, tmo, calls, depth, saved, nextId, admitted, returned>>
PropagateTimeout == /\ pc = "raise_timeout"
                    /\ pc' = "outside" /\ last' = "timeout" /\ cur' = None
                    /\ UNCHANGED <<queue, buffer, clock, start, tmo, calls, depth, saved, nextId, admitted, returned>>

(* ---- one loop iteration -------------------------------------------------- *)
Pop(s) == /\ pc = "loop" /\ queue # {} /\ ~TimedOut /\ buffer = <<>> /\ s \in queue
          /\ queue' = queue \ {s} /\ cur' = s
          /\ UNCHANGED <<buffer, pc, last, clock, start, tmo, calls, depth, saved, nextId, admitted, returned>>
AdmitSolution(x) == /\ pc = "loop" /\ cur # None
                    /\ buffer' = Append(buffer, x)
                    /\ admitted' = IF depth = 0 THEN Append(admitted, x) ELSE admitted
                    /\ nextId' = IF x >= nextId THEN x + 1 ELSE nextId
                    /\ UNCHANGED <<queue, cur, pc, last, clock, start, tmo, calls, depth, saved, returned>>
AdmitEnqueue(x) == /\ pc = "loop" /\ cur # None /\ x \notin queue
                   /\ queue' = queue \cup {x}
                   /\ nextId' = IF x >= nextId THEN x + 1 ELSE nextId
                   /\ UNCHANGED <<buffer, cur, pc, last, clock, start, tmo, calls, depth, saved, admitted, returned>>
AdmitDiscard == /\ pc = "loop" /\ cur # None /\ UNCHANGED vars

(* ---- the unsat-support probe --------------------------------------------- *)
ProbeBegin(x) == /\ Probes /\ pc = "loop" /\ cur # None /\ depth = 0
                 /\ saved' = [queue |-> queue, buffer |-> buffer, start |-> start, tmo |-> tmo, cur |-> cur]
                 /\ queue' = {x} /\ buffer' = <<>> /\ start' = clock /\ tmo' = 2 /\ cur' = None /\ depth' = 1
                 /\ nextId' = IF x >= nextId THEN x + 1 ELSE nextId
                 /\ UNCHANGED <<pc, last, clock, calls, admitted, returned>>
Restore == /\ queue' = saved.queue /\ buffer' = saved.buffer /\ start' = saved.start /\ tmo' = saved.tmo
           /\ cur' = saved.cur /\ depth' = 0 /\ saved' = <<>>
ProbeSat == /\ depth = 1 /\ pc = "loop" /\ buffer # <<>> /\ (queue = {} \/ ~TimedOut)
            /\ Restore /\ UNCHANGED <<pc, last, clock, calls, nextId, admitted, returned>>
ProbeUnsat == /\ depth = 1 /\ pc = "loop" /\ queue = {} /\ buffer = <<>>
              /\ Restore /\ UNCHANGED <<pc, last, clock, calls, nextId, admitted, returned>>
(* the nested call timed out: everything is restored; the check is        *)
(* inconclusive and processing continues.  (Before the repair the nested   *)
(* TimeoutError was not caught and left the user's solve() call:           *)
(* ProbeTimeoutEscapes = TRUE reproduces that, and TLC then refutes         *)
(* TimeoutLatches.)                                                         *)
ProbeTimeout == /\ depth = 1 /\ pc = "loop" /\ queue # {} /\ TimedOut
                /\ Restore /\ pc' = IF ProbeTimeoutEscapes THEN "raise_timeout" ELSE pc
                /\ UNCHANGED <<last, clock, calls, nextId, admitted, returned>>

Tick == /\ clock < MaxClock /\ clock' = clock + 1
        /\ UNCHANGED <<queue, buffer, cur, pc, last, start, tmo, calls, depth, saved, nextId, admitted, returned>>
TickBack == /\ ~Monotone /\ clock > 0 /\ clock' = clock - 1
            /\ UNCHANGED <<queue, buffer, cur, pc, last, start, tmo, calls, depth, saved, nextId, admitted, returned>>

Fresh == nextId <= MaxId
Next == \/ Call \/ TimeoutCheck \/ ReturnTop \/ RaiseStop \/ PropagateTimeout
        \/ \E s \in queue : Pop(s)
        \/ Fresh /\ AdmitSolution(nextId)
        \/ Fresh /\ AdmitEnqueue(nextId)
        \/ Fresh /\ ProbeBegin(nextId)
        \/ ProbeSat \/ ProbeUnsat \/ ProbeTimeout
        \/ Tick \/ TickBack
Spec == Init /\ [][Next]_vars

(* ---- properties ----------------------------------------------------------- *)
TypeOK == /\ pc \in {"outside", "loop", "raise_timeout"} /\ last \in {"none", "ret", "stop", "timeout"}
          /\ depth \in {0, 1} /\ queue \subseteq 1..(MaxId + 1)
(* C02: once exhausted / timed out, every later call ends the same way *)
StopLatches    == [][last = "stop" => last' = "stop"]_vars
TimeoutLatches == [][last = "timeout" => last' = "timeout"]_vars
(* solutions leave in the order they were admitted, none is lost or invented *)
IsPrefixOf(a, b) == Len(a) <= Len(b) /\ SubSeq(b, 1, Len(a)) = a
Fifo == IsPrefixOf(returned, admitted)
BufferIsRest == depth = 0 => returned \o buffer = admitted
NoLossAtStop == last = "stop" /\ pc = "outside" => returned = admitted
(* a probe leaves queue, buffer, start time and timeout exactly as it found them *)
ProbeRestores == [][depth = 1 /\ depth' = 0 =>
                      /\ queue' = saved.queue /\ buffer' = saved.buffer /\ start' = saved.start /\ tmo' = saved.tmo]_vars
ExhaustedMeansEmpty == last = "stop" /\ pc = "outside" => queue = {} /\ buffer = <<>>
View == <<queue, buffer, cur, pc, last, clock, start, tmo, depth, saved, nextId, Len(admitted) - Len(returned)>>
=============================================================================
