----------------------------- MODULE Grammars -----------------------------
(***************************************************************************)
(* Context-free grammars in ISLa's canonical form and their derivation     *)
(* trees / languages.                                                      *)
(*   G  : record  nonterminal name -> Seq(alternative)                     *)
(*   alternative : Seq(symbol);  <<>> is the epsilon alternative           *)
(*   symbol : [nt |-> TRUE, n |-> "<A>", c |-> <<>>]                       *)
(*          | [nt |-> FALSE, n |-> "", c |-> text]                         *)
(***************************************************************************)
EXTENDS Trees

SymNT(n) == [nt |-> TRUE, n |-> n, c |-> <<>>]
SymT(c)  == [nt |-> FALSE, n |-> "", c |-> c]
NTs(G) == DOMAIN G

ChildMatches(sym, t) ==
  IF sym.nt THEN t.nt /\ t.n = sym.n
  ELSE ~t.nt /\ t.c = sym.c /\ ~t.open /\ Len(t.ch) = 0

(* children spell alternative `alt`.  The epsilon alternative has two      *)
(* representations in the implementation: no children, or one empty        *)
(* terminal child (grammar fuzzer).                                        *)
SpellsAlt(alt, ch) ==
  \/ Len(ch) = Len(alt) /\ \A i \in 1..Len(alt) : ChildMatches(alt[i], ch[i])
  \/ alt = <<>> /\ Len(ch) = 1 /\ ~ch[1].nt /\ ch[1].c = <<>> /\ Len(ch[1].ch) = 0

RECURSIVE ValidTree(_, _)
ValidTree(G, t) ==
  IF ~t.nt THEN ~t.open /\ Len(t.ch) = 0
  ELSE /\ t.n \in DOMAIN G
       /\ IF t.open THEN Len(t.ch) = 0
          ELSE /\ \E a \in 1..Len(G[t.n]) : SpellsAlt(G[t.n][a], t.ch)
               /\ \A i \in 1..Len(t.ch) : ValidTree(G, t.ch[i])

(* which alternative a closed inner node uses (first one that fits) *)
AltOf(G, t) == CHOOSE a \in 1..Len(G[t.n]) : SpellsAlt(G[t.n][a], t.ch)

(* ---- enumeration of trees ------------------------------------------- *)
(* all closed trees rooted at sym of height <= d (ids = 0) *)
RECURSIVE TreesOf(_, _, _), SeqsOf(_, _, _)
TreesOf(G, sym, d) ==
  IF ~sym.nt THEN { TermNode(sym.c, 0) }
  ELSE IF d = 0 THEN {}
  ELSE UNION { { NTNode(sym.n, cs, 0) : cs \in SeqsOf(G, G[sym.n][a], d - 1) }
               : a \in 1..Len(G[sym.n]) }
SeqsOf(G, syms, d) ==
  IF syms = <<>> THEN { <<>> }
  ELSE { <<h>> \o r : h \in TreesOf(G, Head(syms), d), r \in SeqsOf(G, Tail(syms), d) }

(* all closed trees rooted at sym with height <= d and at most n nodes; the  *)
(* node budget is split among the children, so the enumeration never builds  *)
(* trees that are too large                                                  *)
RECURSIVE TreesN(_, _, _, _), SeqsN(_, _, _, _)
TreesN(G, sym, d, n) ==
  IF n < 1 THEN {}
  ELSE IF ~sym.nt THEN { TermNode(sym.c, 0) }
  ELSE IF d = 0 THEN {}
  ELSE UNION { { NTNode(sym.n, cs, 0) : cs \in SeqsN(G, G[sym.n][a], d - 1, n - 1) }
               : a \in 1..Len(G[sym.n]) }
SeqsN(G, syms, d, n) ==
  IF syms = <<>> THEN { <<>> }
  ELSE IF n < Len(syms) THEN {}
  ELSE UNION { { <<h>> \o r : r \in SeqsN(G, Tail(syms), d, n - Size(h)) }
               : h \in TreesN(G, Head(syms), d, n - (Len(syms) - 1)) }
TreesUpTo(G, start, d, maxNodes) == TreesN(G, SymNT(start), d, maxNodes)

(* all open trees obtained from t by turning a set of pairwise non-nested  *)
(* nonterminal nodes into open leaves (ids are kept) *)
RECURSIVE Prunings(_)
Prunings(t) ==
  IF ~t.nt THEN {t}
  ELSE LET RECURSIVE Kids(_)
           Kids(i) == IF i > Len(t.ch) THEN { <<>> }
                      ELSE { <<h>> \o r : h \in Prunings(t.ch[i]), r \in Kids(i + 1) }
       IN { OpenNode(t.n, t.id) } \cup { [t EXCEPT !.ch = cs] : cs \in Kids(1) }

(* prunings with at most k opened nodes (for large trees, where Prunings(t) is too big) *)
RECURSIVE NumOpen(_)
NumOpen(t) == IF t.open THEN 1 ELSE LET RECURSIVE S(_) S(i) == IF i > Len(t.ch) THEN 0 ELSE NumOpen(t.ch[i]) + S(i + 1) IN S(1)
RECURSIVE PruningsK(_, _)
PruningsK(t, k) ==
  IF ~t.nt THEN {t}
  ELSE LET RECURSIVE Kids(_, _)
           Kids(i, b) == IF i > Len(t.ch) THEN { <<>> }
                         ELSE UNION { { <<h>> \o r : r \in Kids(i + 1, b - NumOpen(h)) } : h \in PruningsK(t.ch[i], b) }
       IN (IF k >= 1 THEN { OpenNode(t.n, t.id) } ELSE {}) \cup { [t EXCEPT !.ch = cs] : cs \in Kids(1, k) }

(* ---- languages by Kleene iteration ---------------------------------- *)
(* cur : function nonterminal -> set of texts of length <= L *)
RECURSIVE AltLang(_, _, _)
AltLang(alt, cur, L) ==
  IF alt = <<>> THEN { <<>> }
  ELSE LET hs == IF Head(alt).nt THEN cur[Head(alt).n] ELSE { Head(alt).c }
           rs == AltLang(Tail(alt), cur, L)
       IN { w \in { h \o r : h \in { x \in hs : Len(x) <= L }, r \in rs } : Len(w) <= L }
KleeneStep(G, cur, L) ==
  [N \in DOMAIN G |-> UNION { AltLang(G[N][a], cur, L) : a \in 1..Len(G[N]) }]
RECURSIVE KleeneFix(_, _, _)
KleeneFix(G, cur, L) ==
  LET nxt == KleeneStep(G, cur, L) IN IF nxt = cur THEN cur ELSE KleeneFix(G, nxt, L)
LangUpTo(G, L) == KleeneFix(G, [N \in DOMAIN G |-> {}], L)

(* ---- simple grammar analyses ----------------------------------------- *)
RECURSIVE NullFix(_, _)
NullFix(G, cur) ==
  LET nxt == { N \in DOMAIN G : \E a \in 1..Len(G[N]) :
                 \A i \in 1..Len(G[N][a]) :
                    IF G[N][a][i].nt THEN G[N][a][i].n \in cur ELSE G[N][a][i].c = <<>> }
  IN IF nxt = cur THEN cur ELSE NullFix(G, nxt)
Nullable(G) == NullFix(G, {})

DirectlyUses(G, A) ==
  UNION { { G[A][a][i].n : i \in { j \in 1..Len(G[A][a]) : G[A][a][j].nt } } : a \in 1..Len(G[A]) }
RECURSIVE ReachFix(_, _)
ReachFix(G, cur) ==
  LET nxt == cur \cup UNION { DirectlyUses(G, A) : A \in cur }
  IN IF nxt = cur THEN cur ELSE ReachFix(G, nxt)
(* nonterminals reachable from A in one or more steps *)
ReachableFrom(G, A) == ReachFix(G, DirectlyUses(G, A))
Reachable(G, A, B) == B \in ReachableFrom(G, A)

(* A "unit-derives" B: A => ... B ... where everything else is nullable *)
UnitStep(G, A) ==
  LET nl == Nullable(G) IN
  UNION { { G[A][a][i].n : i \in { j \in 1..Len(G[A][a]) :
              /\ G[A][a][j].nt
              /\ \A k \in 1..Len(G[A][a]) : k # j =>
                    (IF G[A][a][k].nt THEN G[A][a][k].n \in nl ELSE G[A][a][k].c = <<>>) } }
          : a \in 1..Len(G[A]) }
RECURSIVE UnitFix(_, _)
UnitFix(G, cur) ==
  LET nxt == cur \cup UNION { UnitStep(G, B) : B \in cur } IN IF nxt = cur THEN cur ELSE UnitFix(G, nxt)
(* no nonterminal derives itself through unit/nullable steps: every string *)
(* has finitely many derivation trees *)
FinitelyAmbiguous(G) == \A A \in DOMAIN G : A \notin UnitFix(G, UnitStep(G, A))
WellFormed(G) == \A A \in DOMAIN G : Len(G[A]) > 0 /\ DirectlyUses(G, A) \subseteq DOMAIN G
=============================================================================
