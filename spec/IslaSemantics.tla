-------------------------- MODULE IslaSemantics --------------------------
(***************************************************************************)
(* Semantics of ISLa formulas on a closed reference tree, transcribed from *)
(* the ISLa language specification (islaspec.rst, section "Semantics").    *)
(*                                                                         *)
(* formula ::= [op |-> "forall"|"exists", v, ty, in, mexpr, body]          *)
(*           | [op |-> "forallint"|"existsint", v, nb, body]               *)
(*           | [op |-> "and"|"or", args] | [op |-> "not", arg]             *)
(*           | [op |-> "pred", name, args] | [op |-> "count", args]        *)
(*           | [op |-> "smt", term] | [op |-> "true"] | [op |-> "false"]   *)
(* mexpr   ::= sequence of atoms  [k |-> "ch", c] (one character)          *)
(*           | [k |-> "nt", n, v] (nonterminal, bound to variable v or "") *)
(*           | [k |-> "opt", atoms]                                        *)
(* An environment maps variable names to [k |-> "p", p |-> path into T]    *)
(* (tree variables) or [k |-> "s", s |-> text] (numeric variables).        *)
(***************************************************************************)
EXTENDS Grammars, Predicates, SmtLib

PathVal(p) == [k |-> "p", p |-> p]
TextVal(s) == [k |-> "s", s |-> s]
Ext(env, v, x) == [y \in DOMAIN env \cup {v} |-> IF y = v THEN x ELSE env[y]]
RECURSIVE ExtAll(_, _)
ExtAll(env, bs) ==      \* bs: set of <<var, path>>
  IF bs = {} THEN env
  ELSE LET b == CHOOSE x \in bs : TRUE IN ExtAll(Ext(env, b[1], PathVal(b[2])), bs \ {b})

(* ---- match expressions ---------------------------------------------- *)
LeafFor(sym) == IF sym.nt THEN OpenNode(sym.n, 0) ELSE TermNode(sym.c, 0)
ShiftBinds(j, b) == { <<x[1], <<j>> \o x[2]>> : x \in b }

(* ParseSym(G, sym, atoms, d): all <<tree, remaining atoms, bindings>> such *)
(* that `tree` is an (open) derivation tree for sym whose frontier spells a *)
(* prefix of `atoms`; nonterminal atoms stay open leaves.                   *)
RECURSIVE ParseSym(_, _, _, _), ParseSeq(_, _, _, _, _)
ParseSym(G, sym, atoms, d) ==
  IF ~sym.nt THEN
     IF Len(atoms) >= Len(sym.c) /\ \A j \in 1..Len(sym.c) : atoms[j].k = "ch" /\ atoms[j].c = sym.c[j]
     THEN { << LeafFor(sym), SubSeq(atoms, Len(sym.c) + 1, Len(atoms)), {} >> } ELSE {}
  ELSE
     LET asLeaf == IF atoms # <<>> /\ atoms[1].k = "nt" /\ atoms[1].n = sym.n
                   THEN { << LeafFor(sym), Tail(atoms),
                             IF atoms[1].v = "" THEN {} ELSE { <<atoms[1].v, <<>> >> } >> }
                   ELSE {}
         expanded == IF d = 0 THEN {} ELSE
            UNION { { << NTNode(sym.n, r[1], 0), r[2], r[3] >> : r \in ParseSeq(G, G[sym.n][a], atoms, d - 1, 1) }
                    : a \in 1..Len(G[sym.n]) }
     IN asLeaf \cup expanded
ParseSeq(G, syms, atoms, d, idx) ==
  IF syms = <<>> THEN { << <<>>, atoms, {} >> }
  ELSE UNION { { << <<r[1]>> \o r2[1], r2[2], ShiftBinds(idx, r[3]) \cup r2[3] >>
                 : r2 \in ParseSeq(G, Tail(syms), r[2], d, idx + 1) }
               : r \in ParseSym(G, Head(syms), atoms, d) }

RECURSIVE ExpandOpts(_)
ExpandOpts(atoms) ==
  IF atoms = <<>> THEN { <<>> }
  ELSE LET rest == ExpandOpts(Tail(atoms)) IN
       IF Head(atoms).k = "opt"
       THEN rest \cup UNION { { h \o r : r \in rest } : h \in ExpandOpts(Head(atoms).atoms) }
       ELSE { <<Head(atoms)>> \o r : r \in rest }

(* mexprTrees(T, mexpr): pairs <<tree, bindings>>; the root is expanded at  *)
(* least once (a match expression is never the bare nonterminal itself).    *)
MexprTrees(G, ty, atoms, d) ==
  UNION { { <<r[1], r[3]>> : r \in { x \in ParseSym(G, SymNT(ty), as, d) : x[2] = <<>> /\ ~x[1].open } }
          : as \in ExpandOpts(atoms) }

(* match(t, t', P) of islaspec; `at` is the path of t in the reference tree *)
RECURSIVE Match(_, _, _, _)
(* An open leaf of the match tree (a nonterminal of the expression's text)  *)
(* matches any subtree with its label; a closed node without children (a    *)
(* terminal, or a nonterminal expanded to the empty string) only matches a  *)
(* node that has no children either.                                        *)
Match(t, m, P, at) ==
  IF Label(t) # Label(m) THEN [ok |-> FALSE, b |-> {}]
  ELSE IF \E x \in P : x[2] = <<>> THEN [ok |-> TRUE, b |-> { <<x[1], at>> : x \in { y \in P : y[2] = <<>> } }]
  ELSE IF m.open THEN [ok |-> TRUE, b |-> {}]
  ELSE IF t.open \/ Len(t.ch) # Len(m.ch) THEN [ok |-> FALSE, b |-> {}]
  ELSE IF Len(m.ch) = 0 THEN [ok |-> TRUE, b |-> {}]
  ELSE LET rs == [j \in 1..Len(m.ch) |->
                    Match(t.ch[j], m.ch[j],
                          { <<x[1], Tail(x[2])>> : x \in { y \in P : y[2] # <<>> /\ Head(y[2]) = j } },
                          Append(at, j))]
       IN [ok |-> \A j \in 1..Len(m.ch) : rs[j].ok, b |-> UNION { rs[j].b : j \in 1..Len(m.ch) }]

(* ---- numeric quantifier domain -------------------------------------- *)
Max2(a, b) == IF a >= b THEN a ELSE b
SetMax(S) == IF S = {} THEN 0 ELSE CHOOSE x \in S : \A y \in S : x >= y
NumeralYields(T) == { StrToInt(Yield(Sub(T, p))) : p \in { q \in PathsOf(T) : IsDigits(Yield(Sub(T, q))) /\ Len(Yield(Sub(T, q))) <= 6 } }
(* beyond this bound every atom of the generated family is constant in the  *)
(* quantified number (see DESIGN.md 6.1)                                    *)
NumBound(T, nb) == Max2(Max2(nb, Size(T)), Max2(Len(Yield(T)), SetMax(NumeralYields(T)))) + 1

(* ---- satisfaction ----------------------------------------------------- *)
SmtEnv(T, env) == [v \in DOMAIN env |-> IF env[v].k = "p" THEN Yield(Sub(T, env[v].p)) ELSE env[v].s]
NodePath(env, a) == env[a.v].p

Insts(G, T, f, env, d) ==
  LET inP == env[f.in].p
      cands == { inP \o q : q \in { q \in PathsOf(Sub(T, inP)) : Sub(T, inP \o q).nt /\ Sub(T, inP \o q).n = f.ty } }
  IN IF f.mexpr = <<>> THEN { Ext(env, f.v, PathVal(p)) : p \in cands }
     ELSE LET mts == MexprTrees(G, f.ty, f.mexpr, d) IN
          UNION { UNION { LET r == Match(Sub(T, p), mt[1], mt[2], p)
                          IN IF r.ok THEN { ExtAll(Ext(env, f.v, PathVal(p)), r.b) } ELSE {}
                        : mt \in mts } : p \in cands }

ArgInt(T, env, a) == IF a.k = "int" THEN a.i ELSE StrToInt(env[a.v].s)

RECURSIVE Sat(_, _, _, _, _)
Sat(G, T, f, env, d) ==
  CASE f.op = "forall" -> \A e \in Insts(G, T, f, env, d) : Sat(G, T, f.body, e, d)
    [] f.op = "exists" -> \E e \in Insts(G, T, f, env, d) : Sat(G, T, f.body, e, d)
    [] f.op = "forallint" -> \A n \in 0..NumBound(T, f.nb) : Sat(G, T, f.body, Ext(env, f.v, TextVal(NatToStr(n))), d)
    [] f.op = "existsint" -> \E n \in 0..NumBound(T, f.nb) : Sat(G, T, f.body, Ext(env, f.v, TextVal(NatToStr(n))), d)
    [] f.op = "and" -> \A j \in 1..Len(f.args) : Sat(G, T, f.args[j], env, d)
    [] f.op = "or"  -> \E j \in 1..Len(f.args) : Sat(G, T, f.args[j], env, d)
    [] f.op = "not" -> ~Sat(G, T, f.arg, env, d)
    [] f.op = "true" -> TRUE
    [] f.op = "false" -> FALSE
    [] f.op = "pred" ->
         LET n == Len(f.args)
             p == NodePath(env, f.args[n - 1])
             q == NodePath(env, f.args[n])
             extra == [j \in 1..(n - 2) |-> IF f.args[j].k = "int" THEN f.args[j].i ELSE f.args[j].s]
         IN PredHolds(T, f.name, extra, p, q)
    [] f.op = "count" ->
         LET inP == NodePath(env, f.args[1])
             needle == f.args[2].s
             k == ArgInt(T, env, f.args[3])
         IN Cardinality({ q \in PathsOf(Sub(T, inP)) : Sub(T, inP \o q).nt /\ Sub(T, inP \o q).n = needle }) = k
    [] f.op = "smt" -> Holds(f.term, SmtEnv(T, env))

(* TLC's integers are 32-bit: arithmetic on numerals of more than 4 digits may overflow: such trees are not judged *)
HasBigNumeral(T) == \E p \in PathsOf(T) : LET y == Yield(Sub(T, p)) IN Len(y) > 4 /\ IsDigits(y)
Env0 == [x \in {"start"} |-> PathVal(<<>>)]
SatTop(G, T, f, d) == Sat(G, T, f, Env0, d)

(* formulas whose verdict the specification does not fix (division by zero) *)
RECURSIVE SmtTerms(_)
SmtTerms(f) ==
  CASE f.op \in {"forall", "exists", "forallint", "existsint"} -> SmtTerms(f.body)
    [] f.op \in {"and", "or"} -> UNION { SmtTerms(f.args[j]) : j \in 1..Len(f.args) }
    [] f.op = "not" -> SmtTerms(f.arg)
    [] f.op = "smt" -> { f.term }
    [] OTHER -> {}
=============================================================================
