------------------------------ MODULE Paths ------------------------------
(***************************************************************************)
(* Tree paths as in the ISLa language specification (islaspec.rst,         *)
(* section "Structural Predicates").  A path is a sequence of 1-based      *)
(* child indices; <<>> is the root.  (The implementation uses 0-based      *)
(* tuples; the projection adds 1.)                                         *)
(***************************************************************************)
EXTENDS Integers, Sequences, FiniteSets

PathPrefix(p, q) == Len(p) <= Len(q) /\ SubSeq(q, 1, Len(p)) = p
StrictPrefix(p, q) == Len(p) < Len(q) /\ SubSeq(q, 1, Len(p)) = p

(* isBefore of islaspec: the first index at which the two paths differ     *)
(* decides; if one is a prefix of the other neither is before the other.   *)
RECURSIVE IsBefore(_, _)
IsBefore(p, q) ==
  IF p = <<>> \/ q = <<>> THEN FALSE
  ELSE IF Head(p) < Head(q) THEN TRUE
  ELSE IF Head(q) < Head(p) THEN FALSE
  ELSE IsBefore(Tail(p), Tail(q))

IsAfter(p, q) == IsBefore(q, p)          \* "occurs after (not below)"
IsInside(p, q) == PathPrefix(q, p)       \* node at p is in the subtree at q
IsDirectChild(p, q) == Len(p) = Len(q) + 1 /\ PathPrefix(q, p)
SamePosition(p, q) == p = q
DifferentPosition(p, q) == p # q

Parent(p) == SubSeq(p, 1, Len(p) - 1)

RECURSIVE LCPLen(_, _)
LCPLen(p, q) == IF p = <<>> \/ q = <<>> \/ Head(p) # Head(q) THEN 0
                ELSE 1 + LCPLen(Tail(p), Tail(q))

(* Document (pre-)order: ancestors come first. *)
RECURSIVE DocLess(_, _)
DocLess(p, q) ==
  IF q = <<>> THEN FALSE
  ELSE IF p = <<>> THEN TRUE
  ELSE IF Head(p) # Head(q) THEN Head(p) < Head(q)
  ELSE DocLess(Tail(p), Tail(q))

(* Theorems about paths; checked by TLC over all paths up to a bound in    *)
(* MC_Paths.  Exactly one of five relations holds for any two paths.       *)
Trichotomy(p, q) ==
  LET rel == << p = q, StrictPrefix(p, q), StrictPrefix(q, p), IsBefore(p, q), IsBefore(q, p) >>
  IN Cardinality({ i \in 1..5 : rel[i] }) = 1
BeforeIrreflexive(p) == ~IsBefore(p, p)
BeforeAsymmetric(p, q) == IsBefore(p, q) => ~IsBefore(q, p)
BeforeTransitive(p, q, r) == IsBefore(p, q) /\ IsBefore(q, r) => IsBefore(p, r)
BeforeIsDocOrderMinusAncestry(p, q) == IsBefore(p, q) <=> (DocLess(p, q) /\ ~PathPrefix(p, q))
=============================================================================
