---------------------------- MODULE Predicates ----------------------------
(***************************************************************************)
(* The built-in structural predicates of ISLa (islaspec.rst, table in      *)
(* "Structural Predicates"), as predicates over a reference tree T and     *)
(* paths into it.                                                          *)
(***************************************************************************)
EXTENDS Trees

Before(T, p, q)            == IsBefore(p, q)
After(T, p, q)             == IsBefore(q, p)         \* "occurs after (not below)"
Inside(T, p, q)            == PathPrefix(q, p)       \* node_1 is a subtree of node_2
DirectChild(T, p, q)       == Len(p) = Len(q) + 1 /\ PathPrefix(q, p)
SamePos(T, p, q)           == p = q
DifferentPos(T, p, q)      == p # q

(* "node_1 and node_2 are consecutive leaves in the parse tree": defined   *)
(* for two leaves; node_2 is the leaf that follows node_1 in leaf order.   *)
ConsecutiveDefined(T, p, q) == IsLeaf(Sub(T, p)) /\ IsLeaf(Sub(T, q))
Consecutive(T, p, q) ==
  LET ls == LeafSeq(T) IN
  \E i \in 1..(Len(ls) - 1) : ls[i] = p /\ ls[i + 1] = q

(* nth(N, node_1, node_2): node_1 is the N-th occurrence of a node with    *)
(* its nonterminal symbol within node_2 (pre-order, node_2 itself counts). *)
NthDefined(T, p, q) == Sub(T, p).nt
Nth(T, N, p, q) ==
  /\ PathPrefix(q, p)
  /\ LET po   == PreOrder(Sub(T, q))
         same == SelectSeq(po, LAMBDA r : Label(Sub(T, q \o r)) = Label(Sub(T, p)))
     IN N >= 1 /\ Len(same) >= N /\ q \o same[N] = p

(* level(PRED, NT, node_1, node_2) -- the only definition is the comment   *)
(* in the implementation: there is a common prefix of both paths pointing  *)
(* to an NT node (or the empty prefix) such that                           *)
(*   EQ: neither remaining path fragment passes through an NT node         *)
(*   GE: the fragment of node_1 does not       LE: that of node_2 does not *)
(*   GT: GE and the fragment of node_2 does    LT: LE and that of node_1   *)
(* "passes through" = a proper prefix of the path, strictly longer than    *)
(* the common prefix, is labelled NT.                                      *)
IsNT(T, p, NT) == Sub(T, p).nt /\ Sub(T, p).n = NT
CommonNTPrefixes(T, NT, p, q) ==
  {<<>>} \cup { SubSeq(p, 1, k) : k \in { j \in 1..LCPLen(p, q) : IsNT(T, SubSeq(p, 1, j), NT) } }
PassesNT(T, NT, pre, p) ==
  \E k \in (Len(pre) + 1)..(Len(p) - 1) : IsNT(T, SubSeq(p, 1, k), NT)
Level(T, PRED, NT, p, q) ==
  \E pre \in CommonNTPrefixes(T, NT, p, q) :
    LET o1 == PassesNT(T, NT, pre, p)
        o2 == PassesNT(T, NT, pre, q)
    IN CASE PRED = "EQ" -> ~o1 /\ ~o2
         [] PRED = "GE" -> ~o1
         [] PRED = "LE" -> ~o2
         [] PRED = "GT" -> ~o1 /\ o2
         [] PRED = "LT" -> ~o2 /\ o1

(* uniform entry point used by IslaSemantics and the C04 check.            *)
(* args: sequence of extra (non-node) arguments                            *)
PredDefined(T, name, extra, p, q) ==
  CASE name = "consecutive" -> ConsecutiveDefined(T, p, q)
    [] name = "nth"         -> NthDefined(T, p, q)
    [] OTHER                -> TRUE
PredHolds(T, name, extra, p, q) ==
  CASE name = "before"             -> Before(T, p, q)
    [] name = "after"              -> After(T, p, q)
    [] name = "inside"             -> Inside(T, p, q)
    [] name = "direct_child"       -> DirectChild(T, p, q)
    [] name = "same_position"      -> SamePos(T, p, q)
    [] name = "different_position" -> DifferentPos(T, p, q)
    [] name = "consecutive"        -> Consecutive(T, p, q)
    [] name = "nth"                -> Nth(T, extra[1], p, q)
    [] name = "level"              -> Level(T, extra[1], extra[2], p, q)
=============================================================================
