------------------------------ MODULE MC_C13 ------------------------------
(***************************************************************************)
(* C13: tree insertion keeps all original nodes and contains the new tree. *)
(*  - Gen   : hosts = closed trees of the grammar up to a bound and their   *)
(*            prunings (open hosts); trees to insert = for every            *)
(*            nonterminal N the trees rooted at N up to a small bound and   *)
(*            their prunings (including the bare open leaf N).              *)
(*  - Judge : every result of insert_tree(ins, host) recorded by the        *)
(*            harness is judged with Relations!InsertStep.                  *)
(***************************************************************************)
EXTENDS Relations, SequencesExt, Json, IOUtils
Data == JsonDeserialize(IOEnv.CASE_FILE)

VARIABLES done, i

HostsClosed == TreesUpTo(Data.g, Data.start, Data.depth, Data.nodes)
HostsOpen == { t \in UNION { Prunings(u) : u \in TreesUpTo(Data.g, Data.start, Data.pdepth, Data.pnodes) } : IsOpenTree(t) }
InsOf(N) == UNION { Prunings(u) : u \in TreesN(Data.g, SymNT(N), Data.idepth, Data.inodes) } \cup { OpenNode(N, 0) }
GInit == /\ done = JsonSerialize(IOEnv.OUT_FILE,
                     [closed |-> SetToSeq(HostsClosed), open |-> SetToSeq(HostsOpen),
                      ins |-> [N \in DOMAIN Data.g |-> SetToSeq(InsOf(N))]])
         /\ i = 0
GNext == UNCHANGED <<done, i>>

(* ---------------- Judge ------------------------------------------------ *)
(* Data.gs: grammars; Data.calls[k] = [id, gi, host, ins, results]          *)
JInit == i = 0 /\ done = TRUE
JNext == i < Len(Data.calls) /\ i' = i + 1 /\ UNCHANGED done

JudgeCall(k) ==
  LET c == Data.calls[k]
      G == Data.gs[c.gi]
      \* the inputs are what the property quantifies over (machinery check): valid trees with
      \* unique, mutually disjoint node ids
      inok == /\ ValidTree(G, c.host) /\ ValidTree(G, c.ins) /\ c.ins.nt
              /\ UniqueIds(c.host) /\ UniqueIds(c.ins) /\ Ids(c.host) \cap Ids(c.ins) = {}
      bad == { j \in 1..Len(c.results) : ~InsertStep(G, c.host, c.ins, c.results[j]) }
      dupids == Cardinality({ j \in 1..Len(c.results) : ~UniqueIds(c.results[j]) })
      holes == Cardinality({ j \in 1..Len(c.results) : j \notin bad /\ ~HolesKept(c.ins, c.results[j]) })
  IN /\ PrintT(<<"CALL", c.id, Len(c.results), Cardinality(bad), inok, dupids, holes>>)
     /\ \A j \in bad : PrintT(<<"MISMATCH", c.id, j, InsertWhy(G, c.host, c.ins, c.results[j])>>)
Judged == i >= 1 => JudgeCall(i)
=============================================================================
