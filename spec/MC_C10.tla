------------------------------ MODULE MC_C10 ------------------------------
(***************************************************************************)
(* C10: the parser accepts exactly the grammar's language and returns      *)
(* faithful trees.                                                         *)
(*  - Gen   : enumerates a family of tiny grammars exhaustively (and a     *)
(*            random sample of a larger family) and writes them out.       *)
(*  - Judge : for every (grammar, nonterminal, string, api) row recorded   *)
(*            from the implementation: acceptance <=> membership in        *)
(*            LangUpTo (Kleene iteration, module Grammars); every returned *)
(*            tree is a ValidTree rooted at the nonterminal whose yield is *)
(*            the input.                                                   *)
(***************************************************************************)
EXTENDS Grammars, SequencesExt, Json, IOUtils, Randomization
CONSTANTS NRandom       \* number of random larger grammars to add

A_ == <<97>>
B_ == <<98>>
RECURSIVE SeqsUpTo(_, _)
SeqsUpTo(S, n) == IF n = 0 THEN { <<>> } ELSE SeqsUpTo(S, n - 1) \cup { Append(s, x) : s \in { t \in SeqsUpTo(S, n - 1) : Len(t) = n - 1 }, x \in S }
AltSets(alts, k) == { s \in SUBSET alts : Cardinality(s) \in 1..k }

Productive(G) == \A N \in DOMAIN G : LangUpTo(G, 4)[N] # {}
AllReachable(G) == ReachableFrom(G, "<start>") \cup {"<start>"} = DOMAIN G
Admissible(G) == WellFormed(G) /\ FinitelyAmbiguous(G) /\ AllReachable(G) /\ Productive(G)

StartAlts == SeqsUpTo({ SymT(A_), SymNT("<A>") }, 2)
AAlts == SeqsUpTo({ SymT(A_), SymT(B_), SymNT("<A>") }, 2)
Family1 == { g \in { [s \in {"<start>", "<A>"} |-> SetToSeq(IF s = "<start>" THEN sa ELSE aa)] :
                       sa \in AltSets(StartAlts, 2), aa \in AltSets(AAlts, 2) } : Admissible(g) }

BigAlts == SeqsUpTo({ SymT(A_), SymT(B_), SymNT("<A>"), SymNT("<B>") }, 3)
RandomGrammar(k) ==
  [s \in {"<start>", "<A>", "<B>"} |->
     SetToSeq(IF s = "<start>" THEN RandomSubset(1, { <<SymNT("<A>")>>, <<SymNT("<A>"), SymNT("<B>")>>, <<SymNT("<B>"), SymT(A_), SymNT("<A>")>>, <<SymT(B_), SymNT("<B>")>> })
              ELSE RandomSubset(RandomElement(1..3), BigAlts))]
Family2 == { g \in { RandomGrammar(k) : k \in 1..NRandom } : Admissible(g) }

(* Family3: nullability flowing through a chain of nonterminals, repeated nullable occurrences in one    *)
(* expansion and nullable neighbours of terminals (where prediction, completion and forest extraction     *)
(* of an Earley parser are delicate); exhaustive over the listed alternatives                             *)
NA == SymNT("<A>")
NB == SymNT("<B>")
TA == SymT(A_)
TB == SymT(B_)
F3Start == { <<NA, NA>>, <<NA, NA, TA>>, <<TA, NA, NA>>, <<NA, TB, NA>>, <<NA, NB>>, <<NB, NA>> }
F3A == { <<NB>>, <<TA>>, <<NB, NB>>, <<TA, NB>>, <<NB, TA>>, <<NB, NB, TB>>, <<NB, TA, NB>> }
F3B == { <<>>, <<TA>>, <<TB>>, <<TB, NB>> }
Family3 == { g \in { [s \in {"<start>", "<A>", "<B>"} |->
                        SetToSeq(IF s = "<start>" THEN {st} ELSE IF s = "<A>" THEN aa ELSE bb)] :
                       st \in F3Start, aa \in AltSets(F3A, 2), bb \in AltSets(F3B, 3) } : Admissible(g) }

VARIABLES done, i
GInit == /\ done = JsonSerialize(IOEnv.OUT_FILE, [f1 |-> SetToSeq(Family1), f2 |-> SetToSeq(Family2), f3 |-> SetToSeq(Family3)])
         /\ i = 0
GNext == UNCHANGED <<done, i>>

(* ---------------- Judge ----------------------------------------------- *)
Data == JsonDeserialize(IOEnv.CASE_FILE)
JInit == i = 0 /\ done = TRUE
JNext == i < Len(Data.cases) /\ i' = i + 1 /\ UNCHANGED done

RowVerdict(G, lang, L, r) ==
  LET member == r.s \in lang[r.nt] IN
  IF Len(r.s) > L THEN "SKIP"
  ELSE IF r.res = "exc" THEN "exception"
  ELSE IF r.res = "syntax" THEN (IF member THEN "reject-member" ELSE "OK")
  ELSE IF ~member THEN "accept-nonmember"
  ELSE IF \E k \in 1..Len(r.trees) : ~ValidTree(G, r.trees[k]) \/ ~Closed(r.trees[k]) THEN "invalid-tree"
  ELSE IF \E k \in 1..Len(r.trees) : ~(r.trees[k].nt /\ r.trees[k].n = r.nt) THEN "wrong-root"
  ELSE IF \E k \in 1..Len(r.trees) : Yield(r.trees[k]) # r.s THEN "wrong-yield"
  ELSE IF Len(r.trees) = 0 THEN "no-tree"
  ELSE "OK"

JudgeCase(k) ==
  LET c == Data.cases[k]
      G == c.g
      lang == LangUpTo(G, c.L)
      vs == [j \in 1..Len(c.rows) |-> RowVerdict(G, lang, c.L, c.rows[j])]
      bad == { j \in 1..Len(c.rows) : vs[j] \notin {"OK", "SKIP"} }
      members == Cardinality({ j \in 1..Len(c.rows) : c.rows[j].s \in lang[c.rows[j].nt] })
  IN /\ PrintT(<<"CASE", c.idx, Len(c.rows), members, Cardinality(bad), Admissible(G)>>)
     /\ \A j \in bad : PrintT(<<"MISMATCH", c.idx, j, vs[j]>>)
Judged == i >= 1 => JudgeCase(i)
=============================================================================
