------------------------------ MODULE Trees ------------------------------
(***************************************************************************)
(* Derivation trees.  A node is a record                                   *)
(*   [n: symbol name ("" for terminals), nt: BOOLEAN, open: BOOLEAN,       *)
(*    ch: Seq(node), c: text of a terminal (Seq of code points), id: Nat]  *)
(* open = TRUE means an unexpanded nonterminal leaf (children = None in    *)
(* the implementation).  A nonterminal with ch = <<>> and open = FALSE is  *)
(* an epsilon expansion.                                                   *)
(***************************************************************************)
EXTENDS Paths, TLC

NTNode(n, ch, id)  == [n |-> n, nt |-> TRUE, open |-> FALSE, ch |-> ch, c |-> <<>>, id |-> id]
OpenNode(n, id)    == [n |-> n, nt |-> TRUE, open |-> TRUE, ch |-> <<>>, c |-> <<>>, id |-> id]
TermNode(c, id)    == [n |-> "", nt |-> FALSE, open |-> FALSE, ch |-> <<>>, c |-> c, id |-> id]

RECURSIVE Sub(_, _)
Sub(t, p) == IF p = <<>> THEN t ELSE Sub(t.ch[Head(p)], Tail(p))

RECURSIVE ValidPath(_, _)
ValidPath(t, p) == p = <<>> \/ (Head(p) \in 1..Len(t.ch) /\ ValidPath(t.ch[Head(p)], Tail(p)))

RECURSIVE PathsOf(_)
PathsOf(t) == {<<>>} \cup UNION { { <<i>> \o q : q \in PathsOf(t.ch[i]) } : i \in 1..Len(t.ch) }

(* pre-order sequence of paths *)
RECURSIVE PreOrderAt(_, _)
PreOrderAt(t, pre) ==
  LET RECURSIVE Cat(_)
      Cat(i) == IF i > Len(t.ch) THEN <<>> ELSE PreOrderAt(t.ch[i], Append(pre, i)) \o Cat(i + 1)
  IN <<pre>> \o Cat(1)
PreOrder(t) == PreOrderAt(t, <<>>)

RECURSIVE Yield(_)
Yield(t) ==
  IF ~t.nt THEN t.c
  ELSE LET RECURSIVE Cat(_)
           Cat(i) == IF i > Len(t.ch) THEN <<>> ELSE Yield(t.ch[i]) \o Cat(i + 1)
       IN Cat(1)

RECURSIVE Size(_)
Size(t) == LET RECURSIVE S(_)
               S(i) == IF i > Len(t.ch) THEN 0 ELSE Size(t.ch[i]) + S(i + 1)
           IN 1 + S(1)

IsLeaf(t) == Len(t.ch) = 0
LeafPaths(t) == { p \in PathsOf(t) : IsLeaf(Sub(t, p)) }
OpenPaths(t) == { p \in PathsOf(t) : Sub(t, p).open }
Closed(t) == OpenPaths(t) = {}
RECURSIVE IsOpenTree(_)
IsOpenTree(t) == t.open \/ \E i \in 1..Len(t.ch) : IsOpenTree(t.ch[i])

(* the label predicates and matching look at *)
Label(t) == IF t.nt THEN <<TRUE, t.n, <<>> >> ELSE <<FALSE, "", t.c>>

RECURSIVE Ids(_)
Ids(t) == {t.id} \cup UNION { Ids(t.ch[i]) : i \in 1..Len(t.ch) }
UniqueIds(t) == Cardinality(Ids(t)) = Size(t)
PathOfId(t, id) == CHOOSE p \in PathsOf(t) : Sub(t, p).id = id
HasId(t, id) == \E p \in PathsOf(t) : Sub(t, p).id = id

(* structure without identities *)
RECURSIVE Shape(_)
Shape(t) == [n |-> t.n, nt |-> t.nt, open |-> t.open, c |-> t.c,
             ch |-> [i \in 1..Len(t.ch) |-> Shape(t.ch[i])]]
StructEq(a, b) == Shape(a) = Shape(b)

RECURSIVE TreeReplaceAt(_, _, _)
TreeReplaceAt(t, p, r) ==
  IF p = <<>> THEN r
  ELSE [t EXCEPT !.ch = [t.ch EXCEPT ![Head(p)] = TreeReplaceAt(t.ch[Head(p)], Tail(p), r)]]

(* post is obtained from pre by expanding open leaves only: every node of  *)
(* pre is still there with the same label and id; closed parts unchanged.  *)
RECURSIVE IsTreePrefix(_, _)
IsTreePrefix(pre, post) ==
  /\ pre.n = post.n /\ pre.nt = post.nt /\ pre.c = post.c
  /\ IF pre.open THEN TRUE
     ELSE /\ ~post.open
          /\ Len(pre.ch) = Len(post.ch)
          /\ \A i \in 1..Len(pre.ch) : IsTreePrefix(pre.ch[i], post.ch[i])
RECURSIVE IsTreePrefixIds(_, _)
IsTreePrefixIds(pre, post) ==
  /\ pre.n = post.n /\ pre.nt = post.nt /\ pre.c = post.c /\ pre.id = post.id
  /\ IF pre.open THEN TRUE
     ELSE /\ ~post.open
          /\ Len(pre.ch) = Len(post.ch)
          /\ \A i \in 1..Len(pre.ch) : IsTreePrefixIds(pre.ch[i], post.ch[i])

(* preorder list of leaves' paths (for `consecutive`) *)
LeafSeq(t) == SelectSeq(PreOrder(t), LAMBDA p : IsLeaf(Sub(t, p)))
IndexIn(s, x) == CHOOSE i \in 1..Len(s) : s[i] = x
=============================================================================
