----------------------------- MODULE SolverData -----------------------------
(***************************************************************************)
(* Data refinement of module Solver, used for trace validation only: the   *)
(* abstract state ids of Solver get their data -- the derivation tree of   *)
(* every state, the priority of every queued state and the set of          *)
(* structural tree hashes the implementation keeps beside the queue        *)
(* (ISLaSolver.tree_hashes_in_queue).  One action per critical section of  *)
(* solve() / state_is_valid_or_enqueue, with the decision rule of each:    *)
(*                                                                         *)
(*   Pop(s)           best-first: no queued state has a smaller cost than s; *)
(*                    the tree of s leaves the hash set                     *)
(*   Admit Solution   the tree is closed, valid and rooted at the start     *)
(*                    symbol                                                *)
(*   Admit Enqueue    level = level of the popped state + 1; the constraint  *)
(*                    is not a disjunction (DNF split happens before);      *)
(*                    the tree is a valid (open) derivation tree rooted at  *)
(*                    the start symbol; with enforce_unique_trees_in_queue  *)
(*                    its shape is not in the hash set; it enters the set   *)
(*   Admit DiscardDupTree   only with enforce_unique_trees_in_queue and     *)
(*                    only when the shape is in the hash set                *)
(*   ProbeBegin / ProbeEnd  the queue is swapped and restored; the hash set *)
(*                    is NOT part of what is saved (as in the code)         *)
(*                                                                         *)
(* None of these rules is one of the listed properties: a trace that       *)
(* breaks one is reported as a diagnostic (evidence field                  *)
(* search_conformance), never as a violation.  Costs are floats in the     *)
(* implementation; the trace carries their dense ranks within the queue.   *)
(***************************************************************************)
EXTENDS Grammars, Json, IOUtils, TLC
Cases == JsonDeserialize(IOEnv.TRACE_FILE).cases

VARIABLES cid, l,
          prio,     \* queue snapshot after the last event: sequence of [s |-> state id, r |-> rank of its cost]
          hashes,   \* shapes (trees without ids) in tree_hashes_in_queue
          cur,      \* shape of the tree of the state being processed (last Pop)
          lvl,      \* level of the state being processed
          saved,    \* queue snapshot saved by a running probe
          diag      \* names of the rules broken so far in this case
dvars == <<cid, l, prio, hashes, cur, lvl, saved, diag>>

NoTree == [n |-> "", nt |-> FALSE, open |-> FALSE, c |-> <<>>, ch |-> <<>>]
InitCase(c) == /\ prio = c.q0 /\ hashes = {Shape(c.tree0)} /\ cur = NoTree /\ lvl = 0 /\ saved = <<>> /\ diag = {}
InitCaseP(c) == /\ prio' = c.q0 /\ hashes' = {Shape(c.tree0)} /\ cur' = NoTree /\ lvl' = 0 /\ saved' = <<>> /\ diag' = {}
Empty == [q0 |-> <<>>, tree0 |-> NoTree]
DInit == cid = 1 /\ l = 0 /\ InitCase(IF Len(Cases) >= 1 THEN Cases[1] ELSE Empty)

Sids(q) == { q[j].s : j \in 1..Len(q) }
RankOf(q, s) == (CHOOSE j \in 1..Len(q) : q[j].s = s)
If(b, name) == IF b THEN {name} ELSE {}
RootOK(c, t) == t.nt /\ t.n = c.start

Broken(c, e) ==
  CASE e.ev = "Pop" ->
         If(e.sid \notin Sids(prio), "pop-of-a-state-that-is-not-queued")
         \cup If(e.sid \in Sids(prio) /\ \E j \in 1..Len(prio) : prio[j].r < prio[RankOf(prio, e.sid)].r, "pop-not-cheapest")
         \cup If(Sids(e.q) # Sids(prio) \ {e.sid}, "pop-changed-other-queue-entries")
    [] e.ev = "Admit" /\ e.kind = "Solution" ->
         If(~Closed(e.tree), "solution-open") \cup If(~ValidTree(c.g, e.tree), "solution-not-a-derivation-tree")
         \cup If(~RootOK(c, e.tree), "solution-wrong-root")
         \cup If(Sids(e.q) # Sids(prio), "solution-changed-queue")
    [] e.ev = "Admit" /\ e.kind = "Enqueue" ->
         If(~ValidTree(c.g, e.tree), "enqueued-not-a-derivation-tree") \cup If(~RootOK(c, e.tree), "enqueued-wrong-root")
         \cup If(c.unique /\ Shape(e.tree) \in hashes, "enqueued-although-tree-in-hash-set")
         \cup If(Sids(e.q) # Sids(prio) \cup {e.sid} \/ e.sid \in Sids(prio), "enqueue-queue-mismatch")
         \cup If(Closed(e.tree) /\ e.ctrue, "complete-state-enqueued-instead-of-returned")
         \cup If(e.level # lvl + 1, "level-is-not-parent-plus-one")
         \cup If(e.disj, "disjunction-enqueued")      \* states are split along the DNF before they are queued
    [] e.ev = "Admit" /\ e.kind = "DiscardDupTree" ->
         If(~c.unique, "tree-discard-without-unique-setting") \cup If(Shape(e.tree) \notin hashes, "tree-discarded-but-not-in-hash-set")
         \cup If(Sids(e.q) # Sids(prio), "discard-changed-queue")
    [] e.ev = "Admit" -> If(Sids(e.q) # Sids(prio), "discard-changed-queue")
    [] e.ev = "ProbeBegin" -> If(saved # <<>>, "nested-probe") \cup If(Sids(e.q) # {e.sid}, "probe-queue-not-singleton")
    [] e.ev = "ProbeEnd" -> If(saved = <<>>, "probe-end-without-begin")
                            \cup If(saved # <<>> /\ Sids(e.q) # Sids(saved[1]), "probe-did-not-restore-queue")
    [] OTHER -> {}

Apply(c, e) ==
  /\ prio' = e.q
  /\ diag' = diag \cup Broken(c, e)
  /\ hashes' = CASE e.ev = "Pop" -> hashes \ {Shape(e.tree)}
                 [] e.ev = "Admit" /\ e.kind = "Enqueue" -> hashes \cup {Shape(e.tree)}
                 [] OTHER -> hashes
  /\ cur' = IF e.ev = "Pop" THEN Shape(e.tree) ELSE cur
  /\ lvl' = IF e.ev = "Pop" THEN e.level ELSE lvl
  /\ saved' = CASE e.ev = "ProbeBegin" -> <<prio>>
                [] e.ev = "ProbeEnd" -> <<>>
                [] OTHER -> saved

DNext ==
  /\ cid <= Len(Cases)
  /\ LET c == Cases[cid] IN
     IF l = Len(c.events)
     THEN /\ PrintT(<<"DATA", c.id, l, diag>>)
          /\ cid' = cid + 1 /\ l' = 0
          /\ IF cid + 1 <= Len(Cases) THEN InitCaseP(Cases[cid + 1]) ELSE InitCaseP(Empty)
     ELSE /\ Apply(c, c.events[l + 1]) /\ l' = l + 1 /\ cid' = cid

(* sanity of the model itself: the hash set only holds shapes of open or closed trees that were queued *)
HashesAreShapes == \A h \in hashes : h.nt \/ h = NoTree
=============================================================================
