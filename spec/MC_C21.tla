------------------------------ MODULE MC_C21 ------------------------------
(***************************************************************************)
(* C21: every input the solver generates for a shipped formalization is    *)
(* valid under the independent predicates of Formats.tla.                  *)
(* One state per recorded solver output: Data.outputs[i] =                 *)
(*   [id, fmt ("csv" | "xml" | "rest" | "tar"), text (code points),        *)
(*    struct (reST only: elements read off the derivation tree by label)]. *)
(* For every output one tuple is printed:                                  *)
(*   <<"OUT", id, "OK" | "MISMATCH" | "UNJUDGED", errors, statistics>>     *)
(***************************************************************************)
EXTENDS Formats, TLC, Json, IOUtils
Data == JsonDeserialize(IOEnv.CASE_FILE)

VARIABLE i
JInit == i = 0
JNext == i < Len(Data.outputs) /\ i' = i + 1

ErrorsOf(o) ==
  CASE o.fmt = "csv" -> CsvErrors(o.text, SEMI)
    [] o.fmt = "xml" -> XmlErrors(o.text)
    [] o.fmt = "rest" -> RestTextErrors(o.text) \cup RestStructErrors(o.struct)
    [] o.fmt = "tar" -> TarErrors(o.text)

(* numbers beyond TLC's integers (enumeration items with more than 9 digits) *)
Unjudged(o) == o.fmt = "rest" /\ (EnumOutOfRange(Lines(o.text)) \/ RestStructOutOfRange(o.struct))

(* what the output exercised: <<a, b, c>>                                   *)
(*   csv : records, columns of the first record, 0                           *)
(*   xml : tags, attributes, namespace prefix uses                           *)
(*   rest: section titles, link references, consecutive enumeration pairs    *)
(*   tar : entries, symbolic links with a target, 0                          *)
StatsOf(o) ==
  CASE o.fmt = "csv" -> LET r == CsvColumns(o.text, SEMI) IN <<Len(r.counts), IF Len(r.counts) > 0 THEN r.counts[1] ELSE 0, 0>>
    [] o.fmt = "xml" -> LET st == XmlFinal(o.text) IN <<st.tags, st.nattrs, st.nsuses>>
    [] o.fmt = "rest" -> LET ls == Lines(o.text) IN <<TitleCount(ls), Cardinality(RefNames(ls)), EnumPairs(ls)>>
    [] o.fmt = "tar" -> <<Len(o.text) \div ENTRY, TarLinks(o.text), 0>>

Judge(k) ==
  LET o == Data.outputs[k]
      errs == ErrorsOf(o)
  IN PrintT(<<"OUT", o.id, IF Unjudged(o) THEN "UNJUDGED" ELSE IF errs = {} THEN "OK" ELSE "MISMATCH", errs, StatsOf(o)>>)
Judged == i >= 1 => Judge(i)
=============================================================================
