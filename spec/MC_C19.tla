------------------------------ MODULE MC_C19 ------------------------------
(***************************************************************************)
(* C19: the isla command line honours its exit-code and output contract.   *)
(*  - Gen      : writes out every condition vector x command of Cli.tla    *)
(*               and the two-step pipeline plans.                          *)
(*  - Classify : for the catalogue grammars: which candidate strings are   *)
(*               in the language (Kleene iteration), which TLC-enumerated  *)
(*               trees satisfy which constraint (IslaSemantics!SatTop).    *)
(*               The harness uses this to materialise the vectors.         *)
(*  - Judge    : one recorded run of `python -m isla` per state; the       *)
(*               condition vector is recomputed from the concrete grammar, *)
(*               constraints and input, and the observed status / stderr   *)
(*               is judged by Cli!Verdict.                                 *)
(*  - Pipes    : recorded two-step traces (solve;check*, parse;check) are  *)
(*               run through the file-store machine Cli!PipeStep.          *)
(*  - PInit/PNext : the file-store machine itself, explored exhaustively   *)
(*               over a small event universe: a trace is accepted without  *)
(*               complaint only if every emitted file was checked with     *)
(*               status 0 and no traceback.                                *)
(***************************************************************************)
EXTENDS IslaSemantics, Cli, SequencesExt, Json, IOUtils
CONSTANTS PDepth        \* length bound for the exploration of the file-store machine

VARIABLES done, i, pst, ptr
Idle == pst = PipeInit /\ ptr = <<>>

(* ---------------- Gen --------------------------------------------------- *)
GInit == /\ Idle
         /\ done = JsonSerialize(IOEnv.OUT_FILE, [vectors |-> SetToSeq(GenVectors), plans |-> SetToSeq(PipePlans)])
         /\ i = 0
GNext == UNCHANGED <<done, i, pst, ptr>>

(* ---------------- shared data ------------------------------------------ *)
Data == JsonDeserialize(IOEnv.CASE_FILE)
(* grammars: record  name -> [G, L]; the languages up to the bound are     *)
(* constants, computed once per TLC run                                    *)
Langs == [gn \in DOMAIN Data.grammars |-> LangUpTo(Data.grammars[gn].G, Data.grammars[gn].L)["<start>"]]
Tb(b) == IF b THEN "T" ELSE "F"
IsStartTree(G, t) == t.nt /\ t.n = "<start>" /\ ValidTree(G, t) /\ Closed(t)

(* ---------------- Classify --------------------------------------------- *)
(* Data.units : sequence of [gn, trees, forms (asts), strings]              *)
CInit == i = 0 /\ done = TRUE /\ Idle
CNext == i < Len(Data.units) /\ i' = i + 1 /\ UNCHANGED <<done, pst, ptr>>
ClassifyUnit(k) ==
  LET u == Data.units[k]
      G == Data.grammars[u.gn].G
  IN /\ \A f \in 1..Len(u.forms) : \A t \in 1..Len(u.trees) :
          PrintT(<<"SAT", k, f, t, Tb(SatTop(G, u.trees[t], u.forms[f], Data.mdepth))>>)
     /\ \A s \in 1..Len(u.strings) : PrintT(<<"MEM", k, s, Tb(u.strings[s] \in Langs[u.gn])>>)
     /\ PrintT(<<"TREES", k, Tb(\A t \in 1..Len(u.trees) : IsStartTree(G, u.trees[t]))>>)
Classified == i >= 1 => ClassifyUnit(i)

(* ---------------- Judge ------------------------------------------------- *)
JInit == i = 0 /\ done = TRUE /\ Idle
JNext == i < Len(Data.cases) /\ i' = i + 1 /\ UNCHANGED <<done, pst, ptr>>

(* membership of the materialised input, with the reason when it cannot be decided *)
MemberOf(c) ==
  IF c.g # "ok" \/ c.ik = "none" THEN "NA"
  ELSE LET G == Data.grammars[c.gn].G IN
       IF c.ik = "json" THEN Tb(IsStartTree(G, c.tree))                 \* the input *is* the tree
       ELSE IF c.has_tree THEN
              (IF IsStartTree(G, c.tree) /\ Yield(c.tree) = c.text THEN "T" ELSE "BADWITNESS")
       ELSE IF Len(c.text) > Data.grammars[c.gn].L THEN "UNKNOWN"
       ELSE Tb(c.text \in Langs[c.gn])

SatOf(c, mem) ==
  IF mem # "T" \/ c.c \notin {"one", "two"} THEN "NA"
  ELSE IF ~c.has_tree THEN "UNKNOWN"        \* a member without a witness tree: cannot evaluate the constraints
  ELSE Tb(\A k \in 1..Len(c.forms) : SatTop(Data.grammars[c.gn].G, c.tree, c.forms[k], Data.mdepth))

JudgeCase(k) ==
  LET c == Data.cases[k]
      mem == MemberOf(c)
      sat == SatOf(c, mem)
      v == [cmd |-> c.cmd, g |-> c.g, c |-> c.c, ik |-> c.ik, empty |-> c.empty, ambiguous |-> c.ambiguous,
            member |-> mem = "T", sat |-> sat = "T"]
      needs == ~Silent(v) /\ ~Missing(v) /\ ~Malformed(v) /\ c.cmd = "check"     \* the row looks at member/sat
      undecided == needs /\ (mem \in {"UNKNOWN", "BADWITNESS"} \/ sat = "UNKNOWN")
      verdict == IF mem = "BADWITNESS" THEN "BADWITNESS"
                 ELSE IF undecided THEN "UNJUDGED-undecided"
                 ELSE Verdict(v, c.obs)
  IN PrintT(<<"CASE", c.id, RowName(v), verdict, mem, sat>>)
Judged == i >= 1 => JudgeCase(i)

(* ---------------- Pipes ------------------------------------------------- *)
TInit == i = 0 /\ done = TRUE /\ Idle
TNext == i < Len(Data.pipes) /\ i' = i + 1 /\ UNCHANGED <<done, pst, ptr>>
JudgePipe(k) ==
  LET p == Data.pipes[k]
      st == RunPipe(PipeInit, p.events, 1)
      verdict == IF st.phase = "reject" \/ ~PipeComplete(st) THEN "NOT-A-BEHAVIOUR"
                 ELSE IF st.bad # {} THEN "MISMATCH"
                 ELSE IF st.unjudged THEN "UNJUDGED-timeout"
                 ELSE "OK"
  IN PrintT(<<"PIPE", p.id, verdict, Cardinality(st.store), st.bad>>)
PipesJudged == i >= 1 => JudgePipe(i)

(* ---------------- the file-store machine, explored ---------------------- *)
PEvents ==
  [a : {"solve", "parse"}, spec : 1..2, status : {0, 1}, tb : BOOLEAN, outs : 0..2, timeout : {FALSE}, file : {0}]
  \cup [a : {"check"}, spec : 1..2, status : {0, 1}, tb : BOOLEAN, outs : {0}, timeout : {FALSE}, file : 1..2]
PInit == pst = PipeInit /\ ptr = <<>> /\ done = TRUE /\ i = 0
PNext == /\ Len(ptr) < PDepth
         /\ \E e \in PEvents : pst' = PipeStep(pst, e) /\ ptr' = Append(ptr, e)
         /\ UNCHANGED <<done, i>>
(* acceptance without complaint implies the statement, read literally on the trace *)
AcceptedMeansAllChecksPass ==
  (pst.phase = "emitted" /\ pst.bad = {}) =>
     \A k \in 1..Len(ptr) : ~ptr[k].tb /\ (ptr[k].a = "check" => ptr[k].status = 0)
CompleteMeansEveryOutputChecked ==
  (pst.phase = "emitted" /\ PipeComplete(pst)) =>
     \A f \in 1..ptr[1].outs : \E k \in 2..Len(ptr) : ptr[k].a = "check" /\ ptr[k].file = f /\ ptr[k].spec = ptr[1].spec
OnlyEmittedFilesAreChecked == pst.checked \subseteq pst.store
RejectIsFinal == [][pst.phase = "reject" => pst'.phase = "reject"]_<<pst, ptr>>
PSpec == PInit /\ [][PNext]_<<pst, ptr, done, i>>
=============================================================================
