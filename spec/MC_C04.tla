------------------------------ MODULE MC_C04 ------------------------------
(***************************************************************************)
(* C04: structural predicates on every ordered pair of nodes.              *)
(*  - PathWalk: a state machine over pairs of paths on which TLC checks    *)
(*    the order-theoretic theorems of module Paths.                        *)
(*  - Gen: enumerates every ordered tree shape up to MaxPlain nodes and    *)
(*    every labelling of every shape up to MaxLab nodes and writes them    *)
(*    out for the harness.                                                 *)
(*  - Judge: reads the truth tables recorded from the implementation and   *)
(*    compares every entry with module Predicates.                         *)
(***************************************************************************)
EXTENDS Predicates, SequencesExt, Json, IOUtils
CONSTANTS MaxPlain, MaxLab, WalkDepth, WalkArity

(* ---------------- PathWalk ------------------------------------------- *)
VARIABLES p, q, done, i       \* each of the three configurations uses its own variables
WInit == p = <<>> /\ q = <<>> /\ done = TRUE /\ i = 0
WNext == /\ UNCHANGED <<done, i>>
         /\ \/ Len(p) < WalkDepth /\ \E k \in 1..WalkArity : p' = Append(p, k) /\ q' = q
            \/ Len(q) < WalkDepth /\ \E k \in 1..WalkArity : q' = Append(q, k) /\ p' = p
WTrichotomy == Trichotomy(p, q)
WIrreflexive == BeforeIrreflexive(p)
WAsymmetric == BeforeAsymmetric(p, q)
WDocOrder == BeforeIsDocOrderMinusAncestry(p, q)
WAfterNotBelow == IsAfter(p, q) => ~PathPrefix(q, p) /\ ~PathPrefix(p, q)
WInsideRefl == IsInside(p, p)
WChildInside == IsDirectChild(p, q) => IsInside(p, q) /\ p # q

(* ---------------- Gen ------------------------------------------------- *)
RECURSIVE ShapeTrees(_), ShapeForests(_)
ShapeTrees(n) == IF n = 0 THEN {} ELSE ShapeForests(n - 1)   \* a shape is the sequence of its child shapes
ShapeForests(n) ==
  IF n = 0 THEN { <<>> }
  ELSE UNION { { <<t>> \o f : t \in ShapeTrees(k), f \in ShapeForests(n - k) } : k \in 1..n }

X == <<120>>
RECURSIVE Plain(_)
Plain(s) == IF s = <<>> THEN TermNode(X, 0) ELSE NTNode("<A>", [j \in 1..Len(s) |-> Plain(s[j])], 0)
PlainRoot(s) == NTNode("<start>", [j \in 1..Len(s) |-> Plain(s[j])], 0)

RECURSIVE Lab(_), LabSeq(_)
Lab(s) == IF s = <<>> THEN { TermNode(X, 0), NTNode("<A>", <<>>, 0), NTNode("<B>", <<>>, 0) }
          ELSE { NTNode(l, ks, 0) : l \in {"<A>", "<B>"}, ks \in LabSeq(s) }
LabSeq(s) == IF s = <<>> THEN { <<>> } ELSE { <<h>> \o r : h \in Lab(Head(s)), r \in LabSeq(Tail(s)) }
LabRoot(s) == { NTNode("<start>", ks, 0) : ks \in LabSeq(s) }

PlainTrees == UNION { { PlainRoot(s) : s \in ShapeTrees(n) } : n \in 1..MaxPlain }
LabTrees == UNION { UNION { LabRoot(s) : s \in ShapeTrees(n) } : n \in 1..MaxLab }

GInit == /\ done = JsonSerialize(IOEnv.OUT_FILE, [plain |-> SetToSeq(PlainTrees), lab |-> SetToSeq(LabTrees)])
         /\ p = <<>> /\ q = <<>> /\ i = 0
GNext == UNCHANGED <<p, q, done, i>>

(* ---------------- Judge ----------------------------------------------- *)
Data == JsonDeserialize(IOEnv.CASE_FILE)
JInit == i = 0 /\ p = <<>> /\ q = <<>> /\ done = TRUE
JNext == i < Len(Data.trees) /\ i' = i + 1 /\ UNCHANGED <<p, q, done>>

Expected(T, k, a, b) ==
  LET pr == Data.preds[k] IN
  IF ~PredDefined(T, pr.name, pr.extra, a, b) THEN 3
  ELSE IF PredHolds(T, pr.name, pr.extra, a, b) THEN 1 ELSE 0

JudgeTree(k) ==
  LET T == Data.trees[k].t
      rows == Data.trees[k].rows
      ps == PathsOf(T)
      complete == /\ { <<rows[j].p, rows[j].q>> : j \in 1..Len(rows) } = ps \X ps
                  /\ Len(rows) = Cardinality(ps) * Cardinality(ps)
      bad == { jk \in (1..Len(rows)) \X (1..Len(Data.preds)) :
                 LET e == Expected(T, jk[2], rows[jk[1]].p, rows[jk[1]].q)
                 IN e # 3 /\ rows[jk[1]].v[jk[2]] # e }
      defined == Cardinality({ jk \in (1..Len(rows)) \X (1..Len(Data.preds)) :
                    Expected(T, jk[2], rows[jk[1]].p, rows[jk[1]].q) # 3 })
  IN /\ PrintT(<<"TREE", Data.trees[k].idx, Len(rows), complete, defined, Cardinality(bad)>>)
     /\ \A jk \in bad :
          PrintT(<<"MISMATCH", Data.trees[k].idx, rows[jk[1]].p, rows[jk[1]].q, jk[2],
                   Expected(T, jk[2], rows[jk[1]].p, rows[jk[1]].q), rows[jk[1]].v[jk[2]]>>)
Judged == i >= 1 => JudgeTree(i)
=============================================================================
