------------------------------ MODULE MC_C09 ------------------------------
(***************************************************************************)
(* RewriteStep / RoundTripStep relations (C07, C08, C09): a list of items   *)
(*   [id, kind, f, h, r, exc]                                               *)
(* where r is the projection of the formula the implementation produced     *)
(* from f (and h), and kind says how the verdicts must relate on every      *)
(* tree of the case file:                                                   *)
(*   "same": Sat(r) = Sat(f)       "neg": Sat(r) = ~Sat(f)                  *)
(*   "and":  Sat(r) = Sat(f) /\ Sat(h)    "or": Sat(r) = Sat(f) \/ Sat(h)   *)
(* An exception recorded instead of a result is a mismatch.                 *)
(***************************************************************************)
EXTENDS IslaSemantics, SequencesExt, Json, IOUtils
Data == JsonDeserialize(IOEnv.CASE_FILE)
VARIABLE i
Init == i = 0
Next == i < Len(Data.items) /\ i' = i + 1

S(f, t) == SatTop(Data.g, Data.trees[t], f, Data.mdepth)
Expected(it, t) ==
  CASE it.kind = "same" -> S(it.f, t)
    [] it.kind = "neg"  -> ~S(it.f, t)
    [] it.kind = "and"  -> S(it.f, t) /\ S(it.h, t)
    [] it.kind = "or"   -> S(it.f, t) \/ S(it.h, t)
(* optional it.req: sequence of <<name, observed boolean>> that must all be TRUE (observations of the  *)
(* implementation's own equality, e.g. "re-parsed formula == first formula")                          *)
ReqFailed(it) == IF "req" \in DOMAIN it THEN { it.req[j][1] : j \in { l \in 1..Len(it.req) : ~it.req[l][2] } } ELSE {}
JudgeItem(k) ==
  LET it == Data.items[k] IN
  IF it.exc # "" THEN PrintT(<<"ITEM", it.id, "exception", 0, 0>>)
  ELSE IF ReqFailed(it) # {} THEN PrintT(<<"ITEM", it.id, "req-failed", 0, 0>>) /\ PrintT(<<"REQ", it.id, ReqFailed(it)>>)
  ELSE LET bad == { t \in 1..Len(Data.trees) : S(it.r, t) # Expected(it, t) }
           ntrue == Cardinality({ t \in 1..Len(Data.trees) : S(it.f, t) })
       IN /\ PrintT(<<"ITEM", it.id, IF bad = {} THEN "ok" ELSE "differs", ntrue, Cardinality(bad)>>)
          /\ \A t \in bad : PrintT(<<"DIFF", it.id, t, Expected(it, t)>>)
Judged == i >= 1 => JudgeItem(i)
=============================================================================
