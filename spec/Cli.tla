------------------------------- MODULE Cli -------------------------------
(***************************************************************************)
(* The exit-code and output contract of the `isla` command line, as far as *)
(* the property statement (C19) fixes it.                                  *)
(*                                                                         *)
(* A *condition vector* v describes one invocation abstractly:             *)
(*   cmd       : "solve" | "check" | "parse" | "repair" | "mutate"         *)
(*   g         : grammar  "none" (not given) | "bad" (given, not BNF)      *)
(*               | "illformed" (BNF, but no grammar: undefined nonterminal,*)
(*                 no <start>) | "ok"                                      *)
(*   c         : constraints "none" | "bad" (one, malformed) | "one"       *)
(*               | "two" (several, all well-formed)                        *)
(*               | "two_onebad" (several, one of them malformed)           *)
(*   ik        : input "none" | "string" (--input-string) | "file"         *)
(*               | "json" (file holding a derivation tree in JSON)         *)
(*   empty     : the input text is empty (empty file / empty string)       *)
(*   ambiguous : the file ends with one extra line break, so that "the     *)
(*               input" may or may not include it                          *)
(*   member    : the input is in the language of the grammar (decided by   *)
(*               the caller with Grammars!LangUpTo / ValidTree)            *)
(*   sat       : the input satisfies the conjunction of all given          *)
(*               constraints (IslaSemantics!SatTop)                        *)
(* `member`/`sat` are only looked at in rows where they are defined.       *)
(*                                                                         *)
(* Exit(v) is the set of exit statuses the statement allows, or            *)
(* Unspecified where it fixes none.  On every vector, specified or not,    *)
(* the run must not end with an uncaught Python traceback.                 *)
(***************************************************************************)
EXTENDS Integers, Sequences, FiniteSets

Commands == {"solve", "check", "parse", "repair", "mutate"}
GStates  == {"none", "bad", "illformed", "ok"}
CStates  == {"none", "bad", "one", "two", "two_onebad"}
IKinds   == {"none", "string", "file", "json"}
Unspecified == {-1}      \* a set like the other rows (TLC compares like with like); -1 is no exit status

USAGE_ERROR == 2
DATA_FORMAT_ERROR == 65

NeedsInput(cmd) == cmd # "solve"

GrammarMissing(v) == v.g = "none"
InputMissing(v)   == NeedsInput(v.cmd) /\ v.ik = "none"
Missing(v)   == GrammarMissing(v) \/ InputMissing(v)
Malformed(v) == v.g = "bad" \/ v.c \in {"bad", "two_onebad"}

(* Conditions about which the statement says nothing (or which it does not  *)
(* classify); a vector with one of them is Unspecified as a whole, because  *)
(* the statement does not rank error conditions against each other.         *)
Silent(v) ==
  \/ v.c = "none" /\ v.cmd # "solve"      \* no constraint at all: neither "missing grammar or input" nor a conjunction the text defines
  \/ v.g = "illformed"                     \* "malformed" is read as "not BNF"; ill-formed grammars only must not crash
  \/ v.ik = "string" /\ v.empty            \* --input-string "": given or missing?
  \/ v.ambiguous

Exit(v) ==
  IF Silent(v) THEN Unspecified
  ELSE IF Missing(v) /\ Malformed(v) THEN {USAGE_ERROR, DATA_FORMAT_ERROR}   \* both sentences apply, no order is given
  ELSE IF Missing(v) THEN {USAGE_ERROR}
  ELSE IF Malformed(v) THEN {DATA_FORMAT_ERROR}
  ELSE IF v.cmd = "check" THEN (IF v.member /\ v.sat THEN {0} ELSE {1})
  ELSE Unspecified

RowName(v) ==
  IF Silent(v) THEN "unspecified"
  ELSE IF Missing(v) /\ Malformed(v) THEN "missing+malformed"
  ELSE IF Missing(v) THEN "missing"
  ELSE IF Malformed(v) THEN "malformed"
  ELSE IF v.cmd = "check" THEN (IF v.member /\ v.sat THEN "check-accept" ELSE "check-reject")
  ELSE "unspecified"

(* observation o = [status, out_empty, err_empty, tb (stderr contains      *)
(* 'Traceback'), timeout (killed by the harness' wall-clock cap)]          *)
Verdict(v, o) ==
  IF o.timeout THEN "UNJUDGED-timeout"
  ELSE IF o.tb THEN "traceback"
  ELSE IF Exit(v) = Unspecified THEN "OK"
  ELSE IF o.status \notin Exit(v) THEN "status"
  ELSE IF o.status = DATA_FORMAT_ERROR /\ o.err_empty THEN "no-message"
  ELSE "OK"

(* ------------------------------------------------------------------------ *)
(* Generation targets: everything the harness has to materialise.  `ic` is  *)
(* the class of input asked for; whether the materialised input really has  *)
(* it is decided again when the run is judged.                              *)
GenVectors ==
  { v \in [cmd : Commands, g : GStates, gvia : {"na", "opt", "file", "py", "split"}, c : CStates,
           cvia : {"na", "opt", "file", "mixed"}, ik : IKinds,
           ic : {"na", "empty", "sat", "unsat", "nonmember"}] :
      /\ (v.g = "none") <=> (v.gvia = "na")
      /\ v.gvia = "py" => v.g \in {"ok", "bad"}          \* a Python extension file defining (or failing to define) `grammar`
      /\ v.gvia = "split" => v.g = "ok"                   \* the rules spread over a .bnf file and a Python file
      /\ (v.c = "none") <=> (v.cvia = "na")
      /\ v.cvia = "mixed" => v.c \in {"two", "two_onebad"}
      /\ v.cmd = "solve" => v.ik = "none"
      /\ (v.ik = "none") <=> (v.ic = "na")
      /\ v.ik = "json" => v.ic # "empty" }

(* ------------------------------------------------------------------------ *)
(* Two-step pipelines over an abstract file store.                          *)
(*   state  [phase, spec, store, checked, bad]                              *)
(*   events [a |-> "solve" | "parse", spec, status, tb, outs, timeout]      *)
(*          [a |-> "check", spec, file, status, tb, timeout]                *)
(* A producer (solve -d DIR / parse) run for specification `spec`           *)
(* (= grammar + constraints) puts `outs` files into the store; every check  *)
(* of a stored file under the same specification must exit 0.  A trace that *)
(* is no behaviour of the machine (check of a file that was never emitted,  *)
(* two producers, ...) is rejected: that is a harness error, not a verdict. *)
PipeInit == [phase |-> "start", spec |-> 0, store |-> {}, checked |-> {}, bad |-> {}, unjudged |-> FALSE]

ProducerEnabled(st, e) == st.phase = "start" /\ e.a \in {"solve", "parse"}
CheckEnabled(st, e) == st.phase = "emitted" /\ e.a = "check" /\ e.file \in st.store /\ e.spec = st.spec

Produce(st, e) ==
  [st EXCEPT !.phase = "emitted", !.spec = e.spec,
             !.store = 1..e.outs,          \* whatever was written counts as emitted, whatever the status
             !.bad = IF e.tb THEN {"producer-traceback"} ELSE {},
             !.unjudged = e.timeout]
CheckFile(st, e) ==
  [st EXCEPT !.checked = @ \cup {e.file},
             !.unjudged = @ \/ e.timeout,
             !.bad = @ \cup (IF e.timeout THEN {}
                             ELSE IF e.tb THEN {"check-traceback"}
                             ELSE IF e.status # 0 THEN {"check-rejects-output"} ELSE {})]

PipeStep(st, e) ==
  IF ProducerEnabled(st, e) THEN Produce(st, e)
  ELSE IF CheckEnabled(st, e) THEN CheckFile(st, e)
  ELSE [st EXCEPT !.phase = "reject"]

RECURSIVE RunPipe(_, _, _)
RunPipe(st, tr, k) ==
  IF k > Len(tr) \/ st.phase = "reject" THEN st ELSE RunPipe(PipeStep(st, tr[k]), tr, k + 1)

(* a recorded trace is a complete behaviour: producer, then every emitted file checked *)
PipeComplete(st) == st.phase = "emitted" /\ st.checked = st.store

(* the abstract machine itself (explored by TLC in the PInit/PNext configuration of MC_C19): *)
(* plans = which producer, in which output mode, followed by checks of all emitted files     *)
SolveModes == {"dir-txt", "dir-json", "stdout-lines"}
ParseModes == {"stdout-pretty", "stdout-compact", "outfile-pretty", "outfile-compact"}
CheckModes == {"file", "string"}
PipePlans ==
  { [producer |-> "solve", mode |-> m, checkvia |-> IF m = "stdout-lines" THEN "string" ELSE "file"] : m \in SolveModes }
  \cup { [producer |-> "parse", mode |-> m, checkvia |-> cv] : m \in ParseModes, cv \in CheckModes }
=============================================================================
