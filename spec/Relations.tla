----------------------------- MODULE Relations -----------------------------
(***************************************************************************)
(* Action predicates over observed pre/post values of single calls of the  *)
(* implementation (C12, C13, C14, C20).  Every operator relates values     *)
(* that the harness recorded (trees in the representation of module Trees, *)
(* texts as sequences of code points) and is defined from Trees, Grammars  *)
(* and the numeral functions of SmtLib only.  For every relation R there   *)
(* is an operator RWhy that names the first conjunct of R that fails       *)
(* ("OK" iff R holds); the MC_* wrappers print it as the mismatch clause.  *)
(***************************************************************************)
EXTENDS Grammars, SmtLib

RootIs(t, N) == t.nt /\ t.n = N
ClosedT(t)   == ~IsOpenTree(t)               \* = Trees!Closed(t), without building the path set

(* number of nodes of t labelled with nonterminal N (t itself included) *)
RECURSIVE CountNT(_, _)
CountNT(t, N) ==
  LET RECURSIVE S(_)
      S(i) == IF i > Len(t.ch) THEN 0 ELSE CountNT(t.ch[i], N) + S(i + 1)
  IN (IF t.nt /\ t.n = N THEN 1 ELSE 0) + S(1)

(* labels of the open leaves of t *)
RECURSIVE OpenLabels(_)
OpenLabels(t) == IF t.open THEN {t.n} ELSE UNION { OpenLabels(t.ch[i]) : i \in 1..Len(t.ch) }

(* <<id, label>> of every node; every subtree (ids included) *)
RECURSIVE NodeSet(_)
NodeSet(t) == { <<t.id, Label(t)>> } \cup UNION { NodeSet(t.ch[i]) : i \in 1..Len(t.ch) }
RECURSIVE SubtreeSet(_)
SubtreeSet(t) == {t} \cup UNION { SubtreeSet(t.ch[i]) : i \in 1..Len(t.ch) }

(* ------------------------------------------------------------------ C12 *)
(* completing an open tree: the result is a closed derivation tree of G    *)
(* and every already expanded part of pre is unchanged                     *)
ExpandStep(G, pre, post) == ClosedT(post) /\ ValidTree(G, post) /\ IsTreePrefix(pre, post)
ExpandWhy(G, pre, post) ==
  IF ~ClosedT(post) THEN "not-closed"
  ELSE IF ~ValidTree(G, post) THEN "invalid-tree"
  ELSE IF ~IsTreePrefix(pre, post) THEN "expanded-part-changed"
  ELSE "OK"

(* mutating a closed tree: closed derivation tree of G with the same root  *)
MutateStep(G, pre, post) == ClosedT(post) /\ ValidTree(G, post) /\ post.nt = pre.nt /\ post.n = pre.n
MutateWhy(G, pre, post) ==
  IF ~ClosedT(post) THEN "not-closed"
  ELSE IF ~ValidTree(G, post) THEN "invalid-tree"
  ELSE IF ~(post.nt = pre.nt /\ post.n = pre.n) THEN "root-changed"
  ELSE "OK"

(* ------------------------------------------------------------------ C13 *)
(* One result res of inserting ins into host.  Node identity is the node   *)
(* id (as in the implementation: find_node).  Reading of "res contains the *)
(* inserted tree": the root of ins occurs in res (same id, same label) and *)
(* the subtree there has ins as a prefix -- every expanded node and every  *)
(* terminal of ins is there with its id, label and position; an open leaf  *)
(* of ins is a hole that may have been expanded or filled by a subtree     *)
(* with the same label (whose root may then carry another id).             *)
RECURSIVE EmbedsAt(_, _)
EmbedsAt(pre, post) ==
  /\ Label(pre) = Label(post)
  /\ \/ pre.open
     \/ /\ pre.id = post.id /\ ~post.open /\ Len(pre.ch) = Len(post.ch)
        /\ \A j \in 1..Len(pre.ch) : EmbedsAt(pre.ch[j], post.ch[j])
OccursIn(ins, res) == \E s \in SubtreeSet(res) : s.id = ins.id /\ EmbedsAt(ins, s)
(* nodes of t that are not holes *)
RECURSIVE SolidNodeSet(_)
SolidNodeSet(t) == IF t.open THEN {} ELSE { <<t.id, Label(t)>> } \cup UNION { SolidNodeSet(t.ch[j]) : j \in 1..Len(t.ch) }
InsertStep(G, host, ins, res) ==
  /\ ValidTree(G, res)
  /\ res.nt = host.nt /\ res.n = host.n
  /\ NodeSet(host) \subseteq NodeSet(res)        \* every node of host: same id, same label
  /\ SolidNodeSet(ins) \subseteq NodeSet(res)    \* every non-hole node of ins: same id, same label
  /\ OccursIn(ins, res)                          \* ... in the same arrangement, below the root of ins
InsertWhy(G, host, ins, res) ==
  IF ~ValidTree(G, res) THEN "invalid-tree"
  ELSE IF ~(res.nt = host.nt /\ res.n = host.n) THEN "root-changed"
  ELSE IF ~(NodeSet(host) \subseteq NodeSet(res)) THEN "host-node-lost"
  ELSE IF ~ins.open /\ <<ins.id, Label(ins)>> \notin NodeSet(res) THEN "inserted-root-lost"
  ELSE IF ~(SolidNodeSet(ins) \subseteq NodeSet(res)) THEN "inserted-node-lost"
  ELSE IF ~OccursIn(ins, res) THEN "inserted-tree-rearranged"
  ELSE "OK"
(* diagnostic only: the holes of ins kept their ids as well *)
HolesKept(ins, res) == NodeSet(ins) \subseteq NodeSet(res)

(* ------------------------------------------------------------------ C14 *)
(* r = [none |-> TRUE] or [none |-> FALSE, t |-> tree]                     *)
FixedLenStep(G, N, len, r) ==
  r.none \/ (ClosedT(r.t) /\ ValidTree(G, r.t) /\ RootIs(r.t, N) /\ Len(Yield(r.t)) = len)
FixedLenWhy(G, N, len, r) ==
  IF r.none THEN "OK"
  ELSE IF ~ClosedT(r.t) THEN "not-closed"
  ELSE IF ~ValidTree(G, r.t) THEN "invalid-tree"
  ELSE IF ~RootIs(r.t, N) THEN "wrong-root"
  ELSE IF Len(Yield(r.t)) # len THEN "wrong-length"
  ELSE "OK"

(* nonterminals from which `needle` can still be derived (one or more steps) *)
CanReach(G, needle) == { N \in DOMAIN G : Reachable(G, N, needle) }
(* the tree res proposed by count(arg, needle, num) for the open tree arg  *)
CountCompleteStep(G, arg, needle, num, res) ==
  /\ ValidTree(G, res) /\ RootIs(res, arg.n)
  /\ CountNT(res, needle) = num
  /\ OpenLabels(res) \cap CanReach(G, needle) = {}
CountCompleteWhy(G, arg, needle, num, res) ==
  IF ~ValidTree(G, res) THEN "invalid-tree"
  ELSE IF ~RootIs(res, arg.n) THEN "wrong-root"
  ELSE IF CountNT(res, needle) # num THEN "wrong-count"
  ELSE IF OpenLabels(res) \cap CanReach(G, needle) # {} THEN "needle-still-reachable"
  ELSE "OK"

(* numerals  [+-]? digit+  (the format the numeric helper documents) *)
IsSignedNumeral(s) == Len(s) > 0 /\ (IF s[1] \in {43, 45} THEN IsDigits(Tail(s)) ELSE IsDigits(s))
SignedVal(s) == IF s[1] = 45 THEN -DigitsVal(Tail(s)) ELSE IF s[1] = 43 THEN DigitsVal(Tail(s)) ELSE DigitsVal(s)
(* the tree built for an integer variable of type N with model value v *)
NumericParseStep(G, N, v, res) ==
  /\ ClosedT(res) /\ ValidTree(G, res) /\ RootIs(res, N)
  /\ IsSignedNumeral(Yield(res)) /\ SignedVal(Yield(res)) = v
NumericParseWhy(G, N, v, res) ==
  IF ~ClosedT(res) THEN "not-closed"
  ELSE IF ~ValidTree(G, res) THEN "invalid-tree"
  ELSE IF ~RootIs(res, N) THEN "wrong-root"
  ELSE IF ~IsSignedNumeral(Yield(res)) THEN "not-a-numeral"
  ELSE IF SignedVal(Yield(res)) # v THEN "wrong-value"
  ELSE "OK"

(* ------------------------------------------------------------------ C20 *)
(* count(t, N, k) *)
CountRel(t, N, k) == CountNT(t, N) = k

(* octal_to_decimal(o, d) on texts *)
OctDigit(c) == c \in 48..55
IsOctDigits(s) == Len(s) > 0 /\ \A j \in 1..Len(s) : OctDigit(s[j])
RECURSIVE OctVal(_)
OctVal(s) == IF s = <<>> THEN 0 ELSE OctVal(SubSeq(s, 1, Len(s) - 1)) * 8 + (s[Len(s)] - 48)
OctalRel(o, d) == IsOctDigits(o) /\ IsDigits(d) /\ OctVal(o) = DigitsVal(d)

(* justification and cropping of texts *)
Fill(c, n) == [j \in 1..n |-> c]
LJustText(s, w, c) == IF Len(s) >= w THEN s ELSE s \o Fill(c, w - Len(s))
RJustText(s, w, c) == IF Len(s) >= w THEN s ELSE Fill(c, w - Len(s)) \o s
CropLeft(s, w)  == IF Len(s) <= w THEN s ELSE SubSeq(s, 1, w)                     \* keep the first w
CropRight(s, w) == IF Len(s) <= w THEN s ELSE SubSeq(s, Len(s) - w + 1, Len(s))   \* keep the last w
JustNames == {"ljust", "rjust", "ljust_crop", "rjust_crop", "extend_crop", "crop"}
(* "the argument already has the requested width": crop asks for at most w *)
(* characters, the others for exactly w                                    *)
WidthRel(name, s, w) == IF name = "crop" THEN Len(s) <= w ELSE Len(s) = w
(* can the request be met at all by the documented operation? ljust/rjust  *)
(* cannot shorten, extend_crop fills with the first character of s         *)
WidthFixable(name, s, w) ==
  CASE name \in {"ljust", "rjust"} -> Len(s) <= w
    [] name = "extend_crop" -> Len(s) > 0
    [] OTHER -> TRUE
(* the justified / cropped text *)
WidthText(name, s, w, c) ==
  CASE name = "ljust" -> LJustText(s, w, c)
    [] name = "rjust" -> RJustText(s, w, c)
    [] name = "ljust_crop" -> CropLeft(LJustText(s, w, c), w)
    [] name = "rjust_crop" -> CropRight(RJustText(s, w, c), w)
    [] name = "extend_crop" -> CropLeft(LJustText(s, w, s[1]), w)
    [] name = "crop" -> CropLeft(s, w)

(* One observed evaluation of a semantic predicate on closed arguments.    *)
(*  obs.kind \in {"true","false","subst-tree","subst-num","notready",     *)
(*               "exc"}                                                    *)
(*  obs.t : proposed replacement tree (subst-tree), obs.s: proposed        *)
(*  numeral text (subst-num).  a: the arguments                            *)
(*   count:  a.t tree, a.needle, a.numvar (num is a variable), a.num       *)
(*   octal:  a.o / a.d trees (or a.ovar / a.dvar = TRUE), a.ont / a.dnt    *)
(*           nonterminals of the two numerals                              *)
(*   width:  a.t tree, a.wvar, a.w, a.c (fill character, <<>> if none)     *)
(* The verdict TRUE is demanded exactly when the relation holds; a verdict *)
(* FALSE only when it does not hold; a replacement must be a valid tree of *)
(* the replaced argument's nonterminal that establishes the relation.      *)
GoodTree(G, t, N) == ClosedT(t) /\ ValidTree(G, t) /\ RootIs(t, N)

CountWhy(G, a, obs) ==
  IF a.numvar THEN
     (IF obs.kind = "subst-num" THEN (IF IsDigits(obs.s) /\ DigitsVal(obs.s) = CountNT(a.t, a.needle) THEN "OK" ELSE "wrong-number-proposed")
      ELSE "undecided-no-proposal")
  ELSE IF CountRel(a.t, a.needle, a.num) THEN (IF obs.kind = "true" THEN "OK" ELSE "holds-but-not-true")
  ELSE IF obs.kind = "true" THEN "true-but-does-not-hold"
  ELSE IF obs.kind = "false" THEN "OK"
  ELSE IF obs.kind = "subst-tree" THEN
     (IF ~(ValidTree(G, obs.t) /\ RootIs(obs.t, a.t.n)) THEN "replacement-invalid"
      ELSE IF ~CountRel(obs.t, a.needle, a.num) THEN "replacement-does-not-satisfy"
      ELSE "OK")
  ELSE "undecided-no-verdict"

OctalWhy(G, a, obs) ==
  IF a.dvar THEN
     (IF obs.kind # "subst-tree" THEN "undecided-no-proposal"
      ELSE IF ~GoodTree(G, obs.t, a.dnt) THEN "replacement-invalid"
      ELSE IF ~OctalRel(Yield(a.o), Yield(obs.t)) THEN "replacement-does-not-satisfy"
      ELSE "OK")
  ELSE IF a.ovar THEN
     (IF obs.kind # "subst-tree" THEN "undecided-no-proposal"
      ELSE IF ~GoodTree(G, obs.t, a.ont) THEN "replacement-invalid"
      ELSE IF ~OctalRel(Yield(obs.t), Yield(a.d)) THEN "replacement-does-not-satisfy"
      ELSE "OK")
  ELSE IF OctalRel(Yield(a.o), Yield(a.d)) THEN (IF obs.kind = "true" THEN "OK" ELSE "holds-but-not-true")
  ELSE IF obs.kind = "true" THEN "true-but-does-not-hold"
  ELSE IF obs.kind = "false" THEN "OK"
  ELSE IF obs.kind = "subst-tree" THEN
     \* a repair of one of the two numerals: whichever it replaces, the pair must then be related
     (IF GoodTree(G, obs.t, a.dnt) /\ OctalRel(Yield(a.o), Yield(obs.t)) THEN "OK"
      ELSE IF GoodTree(G, obs.t, a.ont) /\ OctalRel(Yield(obs.t), Yield(a.d)) THEN "OK"
      ELSE "replacement-does-not-satisfy")
  ELSE "undecided-no-verdict"

WidthWhy(G, name, a, obs) ==
  LET s == Yield(a.t) IN
  IF a.wvar THEN
     (IF obs.kind = "subst-num" THEN (IF IsDigits(obs.s) /\ WidthRel(name, s, DigitsVal(obs.s)) THEN "OK" ELSE "wrong-number-proposed")
      ELSE "undecided-no-proposal")
  ELSE IF WidthRel(name, s, a.w) THEN (IF obs.kind = "true" THEN "OK" ELSE "holds-but-not-true")
  ELSE IF obs.kind = "true" THEN "true-but-does-not-hold"
  ELSE IF obs.kind = "false" THEN "OK"
  ELSE IF obs.kind = "subst-tree" THEN
     (IF ~GoodTree(G, obs.t, a.t.n) THEN "replacement-invalid"
      ELSE IF ~WidthRel(name, Yield(obs.t), a.w) THEN "replacement-does-not-satisfy"
      ELSE IF ~WidthFixable(name, s, a.w) THEN "OK"
      ELSE IF Yield(obs.t) # WidthText(name, s, a.w, IF a.c = <<>> THEN 0 ELSE a.c[1]) THEN "replacement-wrong-text"
      ELSE "OK")
  ELSE "undecided-no-verdict"

(* An exception or a "not ready" answer is no verdict and no proposal: the  *)
(* step is then undecided (reported as a diagnostic), not a violation.     *)
Undecided == {"undecided-exception", "undecided-no-verdict", "undecided-no-proposal"}
SemPredWhy(G, name, a, obs) ==
  IF obs.kind = "exc" THEN "undecided-exception"
  ELSE CASE name = "count" -> CountWhy(G, a, obs)
         [] name = "octal_to_decimal" -> OctalWhy(G, a, obs)
         [] name \in JustNames -> WidthWhy(G, name, a, obs)
SemPredStep(G, name, a, obs) == SemPredWhy(G, name, a, obs) \in {"OK"} \cup Undecided
=============================================================================
