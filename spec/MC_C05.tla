------------------------------ MODULE MC_C05 ------------------------------
(***************************************************************************)
(* C05: ground SMT-LIB atoms are judged as Z3 judges them.                 *)
(* Each case carries a ground Boolean term, Z3's verdict z and ISLa's      *)
(* verdicts through three routes i1 (is_valid), i2 (SMTFormula             *)
(* auto-evaluation), i3 (evaluate()).  The specification computes its own  *)
(* verdict s with module SmtLib.                                           *)
(*   s # z (both definite)  -> "MODEL": the specification disagrees with   *)
(*                             the reference named by the property; this   *)
(*                             is a defect of the specification.           *)
(*   i # z                  -> "MISMATCH" for that route.                  *)
(***************************************************************************)
EXTENDS SmtLib, Json, IOUtils
Data == JsonDeserialize(IOEnv.CASE_FILE)
VARIABLE i
Init == i = 0
Next == i < Len(Data.cases) /\ i' = i + 1

Env0 == [x \in {} |-> <<>>]
Tv(b) == IF b THEN "T" ELSE "F"
Route(c, r, z) ==
  IF r = "NA" THEN {} ELSE IF r = z THEN {} ELSE {1}

(* atoms over numerals beyond TLC's 32-bit integers (c.nomodel): the specification cannot compute a  *)
(* verdict; ISLa is compared with Z3 only, which is what the property asks                            *)
JudgeNoModel(c) ==
  IF c.z \notin {"T", "F"} THEN <<"UNJUDGED", "z3 undecided">>
  ELSE LET bad == (IF c.i1 \notin {"NA", c.z} THEN {"is_valid"} ELSE {})
                   \cup (IF c.i2 \notin {"NA", c.z} THEN {"auto_eval"} ELSE {})
                   \cup (IF c.i3 \notin {"NA", c.z} THEN {"evaluate"} ELSE {})
       IN IF bad = {} THEN <<"OK", c.z>> ELSE <<"MISMATCH", bad>>
Judge(c) ==
  IF c.nomodel THEN JudgeNoModel(c)
  ELSE IF Undefined(c.term, Env0) THEN <<"UNJUDGED", "division by zero">>
  ELSE IF c.z \notin {"T", "F"} THEN <<"UNJUDGED", "z3 undecided">>
  ELSE LET s == Tv(Holds(c.term, Env0)) IN
       IF s # c.z THEN <<"MODEL", s>>
       ELSE LET bad == (IF c.i1 \notin {"NA", c.z} THEN {"is_valid"} ELSE {})
                        \cup (IF c.i2 \notin {"NA", c.z} THEN {"auto_eval"} ELSE {})
                        \cup (IF c.i3 \notin {"NA", c.z} THEN {"evaluate"} ELSE {})
            IN IF bad = {} THEN <<"OK", s>> ELSE <<"MISMATCH", bad>>
Judged == i >= 1 => LET c == Data.cases[i] v == Judge(c) IN
                    (v[1] = "OK" \/ PrintT(<<"CASE", c.id, v[1], v[2]>>))
Count == i = Len(Data.cases) => PrintT(<<"DONE", Len(Data.cases)>>)
=============================================================================
