------------------------------ MODULE MC_C06 ------------------------------
(***************************************************************************)
(* C06: three-valued verdicts on partial trees never contradict a          *)
(* completion.                                                             *)
(*  - Gen   : all prunings (Grammars!Prunings) of the closed trees of the   *)
(*            case file, as distinct shapes.                               *)
(*  - Judge : for each formula, Sat on every closed tree; for each open     *)
(*            tree o the set of verdicts of its completions among the       *)
(*            closed trees (IsTreePrefix); a recorded TRUE (FALSE) is       *)
(*            refuted by a completion that is FALSE (TRUE).  UNKNOWN is     *)
(*            always accepted, so bounded completions cannot raise a false  *)
(*            alarm.                                                        *)
(***************************************************************************)
EXTENDS IslaSemantics, SequencesExt, Json, IOUtils
Data == JsonDeserialize(IOEnv.CASE_FILE)

VARIABLES done, i
(* small trees: all prunings; larger trees: all prunings with at most two opened nodes *)
PrunedOf(t) == IF Size(t) <= 14 THEN Prunings(t) ELSE PruningsK(t, 2)
OpenShapes == { Shape(o) : o \in { x \in UNION { PrunedOf(Data.closed[k]) : k \in 1..Len(Data.closed) } : IsOpenTree(x) } }
GInit == /\ done = JsonSerialize(IOEnv.OUT_FILE, [open |-> SetToSeq(OpenShapes)])
         /\ i = 0
GNext == UNCHANGED <<done, i>>

JInit == i = 0 /\ done = TRUE
JNext == i < Len(Data.formulas) /\ i' = i + 1 /\ UNCHANGED done

(* completions of each open tree among the closed trees (independent of the formula) *)
Compl == [o \in 1..Len(Data.open) |-> { c \in 1..Len(Data.closed) : IsTreePrefix(Data.open[o], Data.closed[c]) }]

JudgeFormula(k) ==
  LET f == Data.formulas[k]
      obs == Data.obs[k]
      sat == [c \in 1..Len(Data.closed) |-> SatTop(Data.g, Data.closed[c], f.ast, Data.mdepth)]
      refuted(o) == \/ obs[o].e = "T" /\ \E c \in Compl[o] : ~sat[c]
                    \/ obs[o].e = "F" /\ \E c \in Compl[o] : sat[c]
      bad == { o \in 1..Len(Data.open) : refuted(o) }
      definite == Cardinality({ o \in 1..Len(Data.open) : obs[o].e \in {"T", "F"} })
      mixed == Cardinality({ o \in 1..Len(Data.open) : (\E c \in Compl[o] : sat[c]) /\ (\E c \in Compl[o] : ~sat[c]) })
  IN /\ PrintT(<<"FORMULA", f.id, Len(Data.open), definite, mixed, Cardinality(bad)>>)
     /\ \A o \in bad : PrintT(<<"REFUTED", f.id, o, obs[o].e, CHOOSE c \in Compl[o] : sat[c] # (obs[o].e = "T")>>)
Judged == i >= 1 => JudgeFormula(i)
=============================================================================
