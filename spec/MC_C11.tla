------------------------------ MODULE MC_C11 ------------------------------
(***************************************************************************)
(* C11: printing a grammar as BNF and parsing the text again keeps the     *)
(* language of every nonterminal; without '<' in terminals the grammar     *)
(* comes back identical.                                                   *)
(*  - Gen   : enumerates grammars whose terminals are built from a palette *)
(*            of characters (letters, space, quote, backslash, angle       *)
(*            brackets, control characters, DEL, a-umlaut, and the two     *)
(*            character texts backslash-n, backslash-t):                   *)
(*              single : <start> ::= t   for every text t of <= MaxItems   *)
(*                       palette items (exhaustive)                        *)
(*              pairs  : a recursive two-nonterminal grammar with an empty *)
(*                       alternative, for every pair of palette items      *)
(*              random : NRandom grammars with 1-3 nonterminals (some      *)
(*                       named <langle>, <langle_0>), 1-3 alternatives of  *)
(*                       0-3 symbols                                       *)
(*            Terminals that contain a text of the shape <...> cannot be   *)
(*            told from nonterminals in the implementation's grammar       *)
(*            representation; such grammars go to a family of their own    *)
(*            that is never judged.                                        *)
(*  - Judge : G = the grammar given to unparse_grammar, G2 = the projected *)
(*            result of parse_bnf (or an exception).                       *)
(***************************************************************************)
EXTENDS Grammars, SequencesExt, Json, IOUtils, Randomization
CONSTANTS MaxItems,     \* longest terminal of the exhaustive single-terminal family, in palette items
          NRandom       \* number of random grammars

Lt == 60
Gt == 62
Chars == {97, 98, 32, 34, 92, Lt, Gt, 9, 10, 13, 11, 12, 0, 127, 228}
Items == { <<c>> : c \in Chars } \cup { <<92, 110>>, <<92, 116>> }
RECURSIVE TextsOf(_)
TextsOf(n) == IF n = 0 THEN { <<>> } ELSE { x \o t : x \in Items, t \in TextsOf(n - 1) }
Texts(n) == UNION { TextsOf(k) : k \in 1..n }

(* the text contains <...> without '<', '>' or a space inside: the         *)
(* implementation reads that as a nonterminal                              *)
HasNTPattern(c) ==
  \E a \in 1..Len(c) : \E b \in (a + 1)..Len(c) :
     /\ c[a] = Lt /\ c[b] = Gt
     /\ \A k \in (a + 1)..(b - 1) : c[k] \notin {Lt, Gt, 32}
TerminalsOf(G) == UNION { UNION { { G[N][a][j].c : j \in { l \in 1..Len(G[N][a]) : ~G[N][a][l].nt } } : a \in 1..Len(G[N]) } : N \in DOMAIN G }
(* G is the projection of a grammar value of the implementation: terminals *)
(* are non-empty, maximal (no two in a row) and do not look like           *)
(* nonterminals                                                            *)
Representable(G) ==
  /\ \A t \in TerminalsOf(G) : t # <<>> /\ ~HasNTPattern(t)
  /\ \A N \in DOMAIN G : \A a \in 1..Len(G[N]) : \A j \in 1..(Len(G[N][a]) - 1) : G[N][a][j].nt \/ G[N][a][j + 1].nt
HasLt(G) == \E t \in TerminalsOf(G) : \E k \in 1..Len(t) : t[k] = Lt
AllReachable(G) == "<start>" \in DOMAIN G /\ ReachableFrom(G, "<start>") \cup {"<start>"} = DOMAIN G

(* ---------------- Gen --------------------------------------------------- *)
Single(t) == [s \in {"<start>"} |-> << <<SymT(t)>> >>]
FSingle == { Single(t) : t \in { u \in Texts(MaxItems) : ~HasNTPattern(u) } }
FLookalike == { Single(t) : t \in { u \in Texts(MaxItems) : HasNTPattern(u) } }
FPairs == { [s \in {"<start>", "<A>"} |->
               IF s = "<start>" THEN << <<SymT(x), SymNT("<A>")>>, <<>> >>
               ELSE << <<SymT(y)>>, <<SymNT("<A>"), SymT(x)>> >>] : x \in Items, y \in Items }

NameSeqs == { <<"<start>", "<A>", "<B>">>, <<"<start>", "<langle>", "<A>">>, <<"<start>", "<langle>", "<langle_0>">>,
              <<"<start>", "<A>", "<langle>">> }
Shapes == { <<>>, <<TRUE>>, <<FALSE>>, <<TRUE, FALSE>>, <<FALSE, TRUE>>, <<FALSE, FALSE>>, <<TRUE, FALSE, TRUE>>,
            <<FALSE, TRUE, FALSE>>, <<TRUE, FALSE, FALSE>>, <<FALSE, FALSE, TRUE>> }
TextOfItems(its) == FlattenSeq(its)
(* '<' is drawn more often than the other items: it is the character the   *)
(* language clause is about                                                *)
RandomItem(k) == IF RandomElement(1..5) = 1 THEN <<Lt>> ELSE RandomElement(Items)
RandomText(n) == TextOfItems([j \in 1..n |-> RandomItem(j)])
RandomSym(isT, names) == IF isT THEN SymT(RandomText(RandomElement(1..3))) ELSE SymNT(RandomElement(names))
AltOfShape(sh, names) == IF sh = <<>> THEN <<>> ELSE [j \in 1..Len(sh) |-> RandomSym(sh[j], names)]
(* anchored: the first alternative of every nonterminal has no nonterminal, *)
(* so every nonterminal derives strings                                     *)
RandomAlts(n, names, anchored) ==
  [a \in 1..n |-> AltOfShape(IF anchored /\ a = 1 THEN RandomElement({ <<>>, <<TRUE>> }) ELSE RandomElement(Shapes), names)]
GrammarOver(names, anchored) == [s \in names |-> RandomAlts(RandomElement(1..3), names, anchored)]
PrefixNames(ns, n) == { ns[j] : j \in 1..n }
RandomGrammar(k) == GrammarOver(PrefixNames(RandomElement(NameSeqs), RandomElement(1..3)), k % 4 # 0)
FRandom == { g \in { RandomGrammar(k) : k \in 1..NRandom } : Representable(g) }

VARIABLES done, i
GInit == /\ done = JsonSerialize(IOEnv.OUT_FILE,
                     [single |-> SetToSeq(FSingle), lookalike |-> SetToSeq(FLookalike), pairs |-> SetToSeq(FPairs),
                      random |-> SetToSeq({ [g |-> G, reach |-> AllReachable(G)] : G \in FRandom })])
         /\ i = 0
GNext == UNCHANGED <<done, i>>

(* ---------------- Judge -------------------------------------------------- *)
Data == JsonDeserialize(IOEnv.CASE_FILE)
JInit == i = 0 /\ done = TRUE
JNext == i < Len(Data.cases) /\ i' = i + 1 /\ UNCHANGED done

SameGrammar(G, H) == DOMAIN G = DOMAIN H /\ \A N \in DOMAIN G : G[N] = H[N]
Shortest(S) == CHOOSE s \in S : \A t \in S : Len(s) <= Len(t)
TotalSize(lang) == LET RECURSIVE Sum(_)
                       Sum(S) == IF S = {} THEN 0 ELSE LET N == CHOOSE x \in S : TRUE IN Cardinality(lang[N]) + Sum(S \ {N})
                   IN Sum(DOMAIN lang)

(* <<verdict, nonterminal, witness text, number of strings compared>> *)
Verdict(c) ==
  LET G == c.g
      H == c.g2
  IN IF ~Representable(G) THEN <<"UNJUDGED-lookalike", "", <<>>, 0>>
     ELSE IF c.res = "exc" THEN <<"exception", "", <<>>, 0>>
     ELSE IF ~HasLt(G) /\ ~SameGrammar(G, H) THEN <<"not-identical", "", <<>>, 0>>
     ELSE IF ~(DOMAIN G \subseteq DOMAIN H) THEN <<"nonterminal-lost", CHOOSE N \in DOMAIN G : N \notin DOMAIN H, <<>>, 0>>
     ELSE IF ~WellFormed(H) THEN <<"undefined-nonterminal", "", <<>>, 0>>
     ELSE LET lg == LangUpTo(G, c.L)
              lh == LangUpTo(H, c.L)
              bad == { N \in DOMAIN G : lg[N] # lh[N] }
          IN IF bad = {} THEN <<"OK", "", <<>>, TotalSize(lg)>>
             ELSE LET N == CHOOSE x \in bad : TRUE
                  IN <<"language", N, Shortest((lg[N] \ lh[N]) \cup (lh[N] \ lg[N])), TotalSize(lg)>>

Judged == i >= 1 => LET c == Data.cases[i]
                        v == Verdict(c)
                    IN PrintT(<<"CASE", c.idx, v[1], v[2], v[3], v[4], HasLt(c.g), c.res = "ok" /\ SameGrammar(c.g, c.g2), AllReachable(c.g)>>)
Count == i = Len(Data.cases) => PrintT(<<"DONE", Len(Data.cases)>>)
=============================================================================
