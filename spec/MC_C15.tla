------------------------------ MODULE MC_C15 ------------------------------
(***************************************************************************)
(* C15: integer intervals inferred from a regular expression are exactly   *)
(* the numbers it matches; compressing a regex concatenation keeps the     *)
(* language.                                                               *)
(*  - Gen   : enumerates the documented grammar of                         *)
(*            numeric_intervals_from_regex (z3_helpers.py) to nesting      *)
(*            depth 1 over a digit palette and writes the terms out.       *)
(*  - Judge : for each recorded result of the implementation               *)
(*      kind "iv": Some(I) must satisfy                                    *)
(*         soundness  every numeral matched by r denotes a covered value   *)
(*                    (all strings over {+,-,0..9} up to length c.ls, and  *)
(*                    all numerals of the probe values with bounded        *)
(*                    padding),                                            *)
(*         exactness  every covered probe value is denoted by a numeral    *)
(*                    that r matches; judged only when the padding that    *)
(*                    was tried reaches RegexInt!PaddingBound(r), i.e.     *)
(*                    when a missing witness is really missing.            *)
(*         Nothing is always accepted.                                     *)
(*      kind "cc": Matches(s, Concat(xs)) = Matches(s, Concat(ys)) for all *)
(*         strings over c.sigma up to length c.L (ys = compressed xs).     *)
(***************************************************************************)
EXTENDS RegexInt, SequencesExt, Json, IOUtils
CONSTANTS DigitPalette,     \* code points of the digits used by Gen
          CcLen             \* longest concatenation list enumerated by Gen

(* ---------------- term constructors ------------------------------------ *)
StrT(cs) == [k |-> "str", s |-> cs]
AppT(f, as) == [k |-> "app", f |-> f, args |-> as, p |-> <<>>]
ReC(c) == AppT("str.to_re", <<StrT(<<c>>)>>)
RangeC(a, b) == AppT("re.range", <<StrT(<<a>>), StrT(<<b>>)>>)
StarT(r) == AppT("re.*", <<r>>)
PlusT(r) == AppT("re.+", <<r>>)
OptT(r) == AppT("re.opt", <<r>>)
UnionT(rs) == AppT("re.union", rs)
CatT(rs) == IF Len(rs) = 1 THEN rs[1] ELSE AppT("re.++", rs)

(* ---------------- Gen: the documented grammar, depth <= 1 --------------- *)
Singles == { ReC(d) : d \in DigitPalette }
Ranges == { RangeC(q[1], q[2]) : q \in { w \in DigitPalette \X DigitPalette : w[1] <= w[2] } }
Zeroes == { StarT(ReC(48)), PlusT(ReC(48)) }
Full == { StarT(RangeC(48, 57)), PlusT(RangeC(48, 57)) }
Level0 == Singles \cup Ranges \cup Zeroes \cup Full

Pm == { ReC(43), ReC(45) }
OptPm == { <<>> } \cup { <<x>> : x \in Pm } \cup { <<OptT(x)>> : x \in Pm }
ZeroElems == Zeroes \cup { ReC(48) }
SeqZeroes == { <<a>> : a \in ZeroElems } \cup { <<a, b>> : a \in ZeroElems, b \in ZeroElems }
OneOrZeroNine == { RangeC(48, 57), RangeC(49, 57) }
FirstElems == Pm \cup ZeroElems
FirstUnions == { UnionT(<<a, b>>) : a \in FirstElems, b \in FirstElems }

Unions1 == { UnionT(<<a, b>>) : a \in Level0, b \in Level0 }
Seq1 == { CatT(s \o z \o <<d, f>>) : s \in OptPm, z \in SeqZeroes \cup { <<>> }, d \in OneOrZeroNine, f \in Full }
Seq2 == { CatT(s \o z \o <<r>>) : s \in OptPm, z \in SeqZeroes, r \in Level0 }
Seq3 == { CatT(<<u, d, f>>) : u \in FirstUnions, d \in OneOrZeroNine, f \in Full }
Seq4 == { CatT(<<u, r>>) : u \in FirstUnions, r \in Level0 }
(* <opt-pm> directly in front of a <regex>: the doctests use it (Concat(Option(Re("-")), Range("0","9"))) *)
Seq5 == { CatT(s \o <<r>>) : s \in OptPm \ { <<>> }, r \in Level0 }

(* concatenation lists for the compression clause: all lists up to CcLen over r, r*, r+ for two letters *)
CcElems == { ReC(97), StarT(ReC(97)), PlusT(ReC(97)), ReC(98), StarT(ReC(98)) }
RECURSIVE ListsOfLen(_, _)
ListsOfLen(S, n) == IF n = 0 THEN { <<>> } ELSE { <<x>> \o t : x \in S, t \in ListsOfLen(S, n - 1) }
CcLists == UNION { ListsOfLen(CcElems, n) : n \in 1..CcLen }

VARIABLES done, i
GInit == /\ done = JsonSerialize(IOEnv.OUT_FILE,
                     [level0 |-> SetToSeq(Level0), unions |-> SetToSeq(Unions1), seq1 |-> SetToSeq(Seq1),
                      seq2 |-> SetToSeq(Seq2), seq3 |-> SetToSeq(Seq3), seq4 |-> SetToSeq(Seq4),
                      seq5 |-> SetToSeq(Seq5), cclists |-> SetToSeq(CcLists)])
         /\ i = 0
GNext == UNCHANGED <<done, i>>

(* ---------------- Judge -------------------------------------------------- *)
Data == JsonDeserialize(IOEnv.CASE_FILE)
JInit == i = 0 /\ done = TRUE
JNext == i < Len(Data.cases) /\ i' = i + 1 /\ UNCHANGED done

BaseVals == (-21..21) \cup { -1000, -999, -120, -101, -100, -99, 99, 100, 101, 120, 999, 1000 }
NearBounds(I) ==
  UNION { (IF I[k].loinf THEN {} ELSE { I[k].lo - 1, I[k].lo, I[k].lo + 1 })
          \cup (IF I[k].hiinf THEN {} ELSE { I[k].hi - 1, I[k].hi, I[k].hi + 1 }) : k \in 1..Len(I) }
ProbeVals(I) == BaseVals \cup { v \in NearBounds(I) : Abs(v) < 100000000 }
AbsLeast(S) == CHOOSE v \in S : \A w \in S : Abs(v) < Abs(w) \/ (Abs(v) = Abs(w) /\ v <= w)
Signs(S) == (IF \E v \in S : v < 0 THEN "n" ELSE "") \o (IF 0 \in S THEN "z" ELSE "") \o (IF \E v \in S : v > 0 THEN "p" ELSE "")

JudgeIv(c) ==
  IF c.res # "some" THEN PrintT(<<"CASE", c.id, "iv", c.res, 0, 0, 0, FALSE, 0>>)
  ELSE
  LET r == c.term
      I == c.iv
      safe == PumpSafe(r)
      need == IF safe THEN PaddingBound(r) ELSE 0
      exactJudged == safe /\ need <= c.jmax
      J == IF exactJudged THEN need ELSE c.jmax
      vals == ProbeVals(I)
      W == [v \in vals |-> HasWitness(r, v, J)]
      matched == { v \in vals : W[v] }
      covered == { v \in vals : CoveredBy(I, v) }
      unsound == matched \ covered
      inexact == covered \ matched
      strs == StringsUpTo(NumeralAlphabet, c.ls)
      unsoundS == { s \in strs : WellFormedNumeral(s) /\ Matches(s, r, NoEnv) /\ ~CoveredBy(I, IntVal(s)) }
      (* the padding lemma, re-checked on this very case when asked for *)
      lemmaBad == IF c.lemma /\ exactJudged THEN { v \in vals : HasWitness(r, v, J + 3) # W[v] } ELSE {}
  IN /\ PrintT(<<"CASE", c.id, "iv", "some", Cardinality(matched), Cardinality(covered), J, exactJudged,
                  Cardinality(vals) + Cardinality(strs)>>)
     /\ (unsound = {} \/ PrintT(<<"MISMATCH", c.id, "soundness", AbsLeast(unsound), Cardinality(unsound), Signs(unsound)>>))
     /\ (unsoundS = {} \/ PrintT(<<"MISMATCH", c.id, "soundness-string", CHOOSE s \in unsoundS : TRUE, Cardinality(unsoundS), "">>))
     /\ (inexact = {} \/ PrintT(<<IF exactJudged THEN "MISMATCH" ELSE "UNJUDGED", c.id, "exactness", AbsLeast(inexact), Cardinality(inexact), Signs(inexact)>>))
     /\ (lemmaBad = {} \/ PrintT(<<"MODEL", c.id, "padding-lemma", AbsLeast(lemmaBad)>>))

JudgeCc(c) ==
  IF c.res # "ok" THEN PrintT(<<"CASE", c.id, "cc", c.res, 0, 0, 0, FALSE, 0>>)
  ELSE
  LET sigma == { c.sigma[k] : k \in 1..Len(c.sigma) }
      strs == StringsUpTo(sigma, c.L)
      lhs == CatT(c.xs)
      rhs == CatT(c.ys)
      ML == { s \in strs : Matches(s, lhs, NoEnv) }
      MR == { s \in strs : Matches(s, rhs, NoEnv) }
      diff == (ML \ MR) \cup (MR \ ML)
  IN /\ PrintT(<<"CASE", c.id, "cc", "ok", Cardinality(ML), Cardinality(MR), c.L, TRUE, Cardinality(strs)>>)
     /\ (diff = {} \/ PrintT(<<"MISMATCH", c.id, "compress", CHOOSE s \in diff : \A t \in diff : Len(s) <= Len(t),
                                Cardinality(diff), IF ML \subseteq MR THEN "grew" ELSE IF MR \subseteq ML THEN "shrank" ELSE "both">>))

Judged == i >= 1 => LET c == Data.cases[i] IN IF c.kind = "iv" THEN JudgeIv(c) ELSE JudgeCc(c)
Count == i = Len(Data.cases) => PrintT(<<"DONE", Len(Data.cases)>>)
=============================================================================
