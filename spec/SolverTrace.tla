---------------------------- MODULE SolverTrace ----------------------------
(***************************************************************************)
(* Trace validation for module Solver.  Each case of the trace file is one *)
(* real ISLaSolver object: a header (grammar, constraint AST, settings,    *)
(* number of initial states) and the events recorded by the hooks in       *)
(* solve() (Pop, Admit, ProbeBegin, ProbeEnd), by the harness wrapper      *)
(* around every public solve() call (Call, Return, Stop, Timeout, Error)   *)
(* and by the virtual clock (Tick).  Every event must be explained by the  *)
(* Solver action of the same name with the logged arguments, and the       *)
(* logged scalars (queue length, buffer length) must match the model.  A   *)
(* returned tree must satisfy SolutionOK (C01), evaluated with the TLA+    *)
(* semantics of the constraint.                                            *)
(***************************************************************************)
EXTENDS Solver, IslaSemantics, Json, IOUtils
Cases == JsonDeserialize(IOEnv.TRACE_FILE).cases

VARIABLES cid, l
tvars == <<cid, l, queue, buffer, cur, pc, last, clock, start, tmo, calls, depth, saved, nextId, admitted, returned>>

InitCase(c) ==
  /\ queue = 1..c.init /\ buffer = <<>> /\ cur = None /\ pc = "outside" /\ last = "none"
  /\ clock = c.clock0 /\ start = None /\ tmo = c.timeout /\ calls = 0 /\ depth = 0 /\ saved = <<>>
  /\ nextId = c.init + 1 /\ admitted = <<>> /\ returned = <<>>
InitCaseP(c) ==    \* primed version: start the next case
  /\ queue' = 1..c.init /\ buffer' = <<>> /\ cur' = None /\ pc' = "outside" /\ last' = "none"
  /\ clock' = c.clock0 /\ start' = None /\ tmo' = c.timeout /\ calls' = 0 /\ depth' = 0 /\ saved' = <<>>
  /\ nextId' = c.init + 1 /\ admitted' = <<>> /\ returned' = <<>>

TInit == cid = 1 /\ l = 0 /\ (IF Len(Cases) >= 1 THEN InitCase(Cases[1]) ELSE InitCase([init |-> 0, clock0 |-> 0, timeout |-> NoTimeout]))

TickTo(c) == /\ c >= clock /\ clock' = c
             /\ UNCHANGED <<queue, buffer, cur, pc, last, start, tmo, calls, depth, saved, nextId, admitted, returned>>

RootOK(c, t) == t.nt /\ t.n = c.start
SolutionFails(c, t) ==
     (IF ~Closed(t) THEN {"open-tree-returned"} ELSE {})
  \cup (IF ~ValidTree(c.g, t) THEN {"not-a-derivation-tree"} ELSE {})
  \cup (IF ~RootOK(c, t) THEN {"wrong-root"} ELSE {})
  \cup (IF Closed(t) /\ ValidTree(c.g, t) /\ c.phi.op # "skip" /\ ~HasBigNumeral(t) /\ ~SatTop(c.g, t, c.phi, c.mdepth) THEN {"constraint-violated"} ELSE {})

(* the Solver action that explains event e (enabled and with matching logged scalars) *)
Explains(c, e) ==
  CASE e.ev = "Call" -> Call
    [] e.ev = "Tick" -> TickTo(e.clock)
    [] e.ev = "Pop" -> Pop(e.sid) /\ Cardinality(queue') = e.qlen
    [] e.ev = "Admit" ->
         (CASE e.kind = "Solution" -> AdmitSolution(e.tid)
            [] e.kind = "Enqueue" -> AdmitEnqueue(e.sid) /\ Cardinality(queue') = e.qlen
            [] OTHER -> AdmitDiscard)
    [] e.ev = "ProbeBegin" -> ProbeBegin(e.sid)
    [] e.ev = "ProbeEnd" -> (ProbeSat \/ ProbeUnsat \/ ProbeTimeout) /\ Cardinality(queue') = e.qlen
    [] e.ev = "Return" -> ReturnTop /\ returned'[Len(returned')] = e.tid /\ Len(buffer') = e.blen /\ Cardinality(queue') = e.qlen
    [] e.ev = "Stop" -> RaiseStop
    [] e.ev = "Timeout" -> TimeoutCheck \/ PropagateTimeout
    [] OTHER -> FALSE

NextCase == /\ cid' = cid + 1 /\ l' = 0
            /\ IF cid + 1 <= Len(Cases) THEN InitCaseP(Cases[cid + 1])
               ELSE UNCHANGED <<queue, buffer, cur, pc, last, clock, start, tmo, calls, depth, saved, nextId, admitted, returned>>

TNext ==
  /\ cid <= Len(Cases)
  /\ LET c == Cases[cid] IN
     IF l = Len(c.events)
     THEN PrintT(<<"TRACE", c.id, l, "accepted">>) /\ NextCase
     ELSE LET e == c.events[l + 1]
              sol == IF e.ev = "Return" THEN SolutionFails(c, e.tree) ELSE {}
          IN IF sol # {}
             THEN /\ PrintT(<<"MISMATCH", c.id, l + 1, e.ev, sol>>) /\ PrintT(<<"TRACE", c.id, l, "rejected">>) /\ NextCase
             ELSE IF ENABLED Explains(c, e)
             THEN /\ Explains(c, e) /\ l' = l + 1 /\ cid' = cid
                  /\ (e.ev = "Return" /\ HasBigNumeral(e.tree) => PrintT(<<"UNJUDGED", c.id, l + 1, "numeral beyond 32 bits">>))
             ELSE /\ PrintT(<<"MISMATCH", c.id, l + 1, e.ev,
                              {IF e.ev = "Error" THEN "disallowed-outcome" ELSE "event-not-allowed-by-Solver"}>>)
                  /\ PrintT(<<"STATE", c.id, [pc |-> pc, last |-> last, qlen |-> Cardinality(queue), blen |-> Len(buffer), depth |-> depth,
                                              clock |-> clock, start |-> start, tmo |-> tmo, cur |-> cur]>>)
                  /\ PrintT(<<"TRACE", c.id, l, "rejected">>) /\ NextCase

(* properties evaluated on every validated step *)
TStopLatches    == [][cid' = cid => (last = "stop" => last' = "stop")]_tvars
TTimeoutLatches == [][cid' = cid => (last = "timeout" => last' = "timeout")]_tvars
TFifo == Fifo
TBufferIsRest == BufferIsRest
=============================================================================
