------------------------------ MODULE MC_C03 ------------------------------
(***************************************************************************)
(* C03 (and the tree/formula plumbing shared with C06, C08, C09):          *)
(*  - Gen   : all closed derivation trees of a grammar up to a height and   *)
(*            node bound (Grammars!TreesUpTo), written out for the harness. *)
(*  - Judge : for every formula of the case file, the verdict               *)
(*            IslaSemantics!SatTop on every tree is compared with the       *)
(*            verdicts recorded from evaluate() and ISLaSolver.check().     *)
(***************************************************************************)
EXTENDS IslaSemantics, SequencesExt, Json, IOUtils
Data == JsonDeserialize(IOEnv.CASE_FILE)

VARIABLES done, i
GInit == /\ done = JsonSerialize(IOEnv.OUT_FILE,
                      [trees |-> SetToSeq(TreesUpTo(Data.g, "<start>", Data.depth, Data.nodes))])
         /\ i = 0
GNext == UNCHANGED <<done, i>>

JInit == i = 0 /\ done = TRUE
JNext == i < Len(Data.formulas) /\ i' = i + 1 /\ UNCHANGED done

Tv(b) == IF b THEN "T" ELSE "F"
JudgeFormula(k) ==
  LET f == Data.formulas[k]
      obs == Data.obs[k]                 \* obs[t] = [e |-> evaluate verdict, c |-> check verdict]
      undef == \E tm \in SmtTerms(f.ast) : FALSE    \* (division is not generated)
      exp == [t \in 1..Len(Data.trees) |-> Tv(SatTop(Data.g, Data.trees[t], f.ast, Data.mdepth))]
      bad == { t \in 1..Len(Data.trees) : obs[t].e # exp[t] \/ obs[t].c \notin {exp[t], "NA"} }
      ntrue == Cardinality({ t \in 1..Len(Data.trees) : exp[t] = "T" })
  IN /\ PrintT(<<"FORMULA", f.id, Len(Data.trees), ntrue, Cardinality(bad)>>)
     /\ \A t \in bad : PrintT(<<"MISMATCH", f.id, t, exp[t], obs[t].e, obs[t].c>>)
Judged == i >= 1 => JudgeFormula(i)
=============================================================================
