------------------------------ MODULE SmtLib ------------------------------
(***************************************************************************)
(* Semantics of the ground SMT-LIB terms that can occur in ISLa            *)
(* constraints (theories Core, Ints, Strings incl. RegLan; SMT-LIB 2.6     *)
(* "Unicode Strings").  Texts are sequences of code points.                *)
(*   term ::= [k |-> "var", v] | [k |-> "str", s] | [k |-> "int", i]       *)
(*          | [k |-> "bool", b] | [k |-> "app", f, args, p]                *)
(* env maps variable names to texts (variables of ISLa formulas denote     *)
(* the strings of subtrees) or, for numeric variables, also to texts.      *)
(* Division/modulo by zero is unspecified in SMT-LIB: Undefined(t, env)    *)
(* flags terms whose value depends on it.                                  *)
(***************************************************************************)
EXTENDS Integers, Sequences, FiniteSets, TLC

Digit(c) == c \in 48..57
IsDigits(s) == Len(s) > 0 /\ \A j \in 1..Len(s) : Digit(s[j])
RECURSIVE DigitsVal(_)
DigitsVal(s) == IF s = <<>> THEN 0 ELSE DigitsVal(SubSeq(s, 1, Len(s) - 1)) * 10 + (s[Len(s)] - 48)
StrToInt(s) == IF IsDigits(s) THEN DigitsVal(s) ELSE -1
RECURSIVE NatToStr(_)
NatToStr(n) == IF n < 10 THEN <<48 + n>> ELSE NatToStr(n \div 10) \o <<48 + (n % 10)>>
IntToStr(n) == IF n < 0 THEN <<>> ELSE NatToStr(n)
(* texts that TLC's 32-bit integers can hold as numbers *)
NumeralFits(s) == Len(s) <= 9

SmtDiv(x, y) == IF y > 0 THEN x \div y ELSE -(x \div (-y))
SmtMod(x, y) == IF y > 0 THEN x % y ELSE x % (-y)
Abs(x) == IF x < 0 THEN -x ELSE x
RECURSIVE Pow(_, _)
Pow(b, e) == IF e <= 0 THEN 1 ELSE b * Pow(b, e - 1)

StrHasPrefixAt(s, t, i) ==   \* t occurs in s at 0-based offset i
  i >= 0 /\ i + Len(t) <= Len(s) /\ SubSeq(s, i + 1, i + Len(t)) = t
StrIndexOf(s, t, i) ==
  IF i < 0 \/ i > Len(s) THEN -1
  ELSE LET cand == { j \in i..Len(s) : StrHasPrefixAt(s, t, j) }
       IN IF cand = {} THEN -1 ELSE CHOOSE j \in cand : \A k \in cand : j <= k
StrContains(s, t) == StrIndexOf(s, t, 0) >= 0
StrSubstr(s, i, n) ==
  IF i < 0 \/ i >= Len(s) \/ n <= 0 THEN <<>>
  ELSE SubSeq(s, i + 1, IF i + n > Len(s) THEN Len(s) ELSE i + n)
StrAt(s, i) == StrSubstr(s, i, 1)
StrReplace(s, t, u) ==
  LET j == StrIndexOf(s, t, 0)
  IN IF j < 0 THEN s ELSE SubSeq(s, 1, j) \o u \o SubSeq(s, j + Len(t) + 1, Len(s))
RECURSIVE StrReplaceAll(_, _, _)
StrReplaceAll(s, t, u) ==
  IF t = <<>> THEN s
  ELSE LET j == StrIndexOf(s, t, 0)
       IN IF j < 0 THEN s
          ELSE SubSeq(s, 1, j) \o u \o StrReplaceAll(SubSeq(s, j + Len(t) + 1, Len(s)), t, u)
RECURSIVE StrLexLess(_, _)
StrLexLess(a, b) ==
  IF b = <<>> THEN FALSE
  ELSE IF a = <<>> THEN TRUE
  ELSE IF Head(a) # Head(b) THEN Head(a) < Head(b)
  ELSE StrLexLess(Tail(a), Tail(b))

BoolOps == {"=", "distinct", "and", "or", "not", "=>", "xor", "<", "<=", ">", ">=", "str.<", "str.<=",
            "str.prefixof", "str.suffixof", "str.contains", "str.in_re", "str.is_digit"}
RECURSIVE Ev(_, _), Matches(_, _, _), MatchesLoop(_, _, _, _, _), Undefined(_, _)

(* value of a term of sort Bool / Int / String *)
Ev(t, env) ==
  CASE t.k = "var"  -> env[t.v]
    [] t.k = "str"  -> t.s
    [] t.k = "int"  -> t.i
    [] t.k = "bool" -> t.b
    [] t.k = "app"  ->
      LET a == t.args
          n == Len(a)
          V(j) == Ev(a[j], env)
      IN CASE t.f = "="   -> \A j \in 1..(n - 1) : V(j) = V(j + 1)
           [] t.f = "distinct" -> \A j, l \in 1..n : j # l => V(j) # V(l)
           [] t.f = "ite" -> IF V(1) THEN V(2) ELSE V(3)
           [] t.f = "and" -> \A j \in 1..n : V(j)
           [] t.f = "or"  -> \E j \in 1..n : V(j)
           [] t.f = "not" -> ~V(1)
           [] t.f = "=>"  -> V(1) => V(2)
           [] t.f = "xor" -> V(1) # V(2)
           [] t.f = "+"   -> LET RECURSIVE S(_) S(j) == IF j > n THEN 0 ELSE V(j) + S(j + 1) IN S(1)
           [] t.f = "-"   -> IF n = 1 THEN -V(1)
                             ELSE LET RECURSIVE S(_) S(j) == IF j > n THEN 0 ELSE V(j) + S(j + 1) IN V(1) - S(2)
           [] t.f = "*"   -> LET RECURSIVE P(_) P(j) == IF j > n THEN 1 ELSE V(j) * P(j + 1) IN P(1)
           [] t.f = "div" -> IF V(2) = 0 THEN 0 ELSE SmtDiv(V(1), V(2))
           [] t.f = "mod" -> IF V(2) = 0 THEN 0 ELSE SmtMod(V(1), V(2))
           [] t.f = "abs" -> Abs(V(1))
           [] t.f = "^"   -> Pow(V(1), V(2))
           [] t.f = "<"   -> V(1) < V(2)
           [] t.f = "<="  -> V(1) <= V(2)
           [] t.f = ">"   -> V(1) > V(2)
           [] t.f = ">="  -> V(1) >= V(2)
           [] t.f = "str.len" -> Len(V(1))
           [] t.f = "str.++"  -> LET RECURSIVE C(_) C(j) == IF j > n THEN <<>> ELSE V(j) \o C(j + 1) IN C(1)
           [] t.f = "str.at"  -> StrAt(V(1), V(2))
           [] t.f = "str.substr" -> StrSubstr(V(1), V(2), V(3))
           [] t.f = "str.prefixof" -> StrHasPrefixAt(V(2), V(1), 0)
           [] t.f = "str.suffixof" -> StrHasPrefixAt(V(2), V(1), Len(V(2)) - Len(V(1)))
           [] t.f = "str.contains" -> StrContains(V(1), V(2))
           [] t.f = "str.indexof"  -> StrIndexOf(V(1), V(2), V(3))
           [] t.f = "str.replace"  -> StrReplace(V(1), V(2), V(3))
           [] t.f = "str.replace_all" -> StrReplaceAll(V(1), V(2), V(3))
           [] t.f = "str.<"   -> StrLexLess(V(1), V(2))
           [] t.f = "str.<="  -> V(1) = V(2) \/ StrLexLess(V(1), V(2))
           [] t.f = "str.is_digit" -> Len(V(1)) = 1 /\ Digit(V(1)[1])
           [] t.f = "str.to_code"  -> IF Len(V(1)) = 1 THEN V(1)[1] ELSE -1
           [] t.f = "str.from_code" -> IF V(1) >= 0 /\ V(1) <= 196607 THEN <<V(1)>> ELSE <<>>
           [] t.f = "str.to.int"   -> StrToInt(V(1))
           [] t.f = "str.from_int" -> IntToStr(V(1))
           [] t.f = "str.in_re"    -> Matches(V(1), a[2], env)
           [] OTHER -> Assert(FALSE, <<"SmtLib!Ev: unsupported operator", t.f>>)

(* s is in the language of the RegLan term r *)
Matches(s, r, env) ==
  LET a == r.args
      n == Len(a)
  IN CASE r.f = "str.to_re"  -> s = Ev(a[1], env)
       [] r.f = "re.none"    -> FALSE
       [] r.f = "re.all"     -> TRUE
       [] r.f = "re.allchar" -> Len(s) = 1
       [] r.f = "re.range"   -> LET lo == Ev(a[1], env) hi == Ev(a[2], env)
                                IN Len(s) = 1 /\ Len(lo) = 1 /\ Len(hi) = 1 /\ lo[1] <= s[1] /\ s[1] <= hi[1]
       [] r.f = "re.++"      -> LET RECURSIVE C(_, _)
                                    C(j, rest) == IF j = n THEN Matches(rest, a[n], env)
                                                  ELSE \E k \in 0..Len(rest) :
                                                         Matches(SubSeq(rest, 1, k), a[j], env) /\ C(j + 1, SubSeq(rest, k + 1, Len(rest)))
                                IN C(1, s)
       [] r.f = "re.union"   -> \E j \in 1..n : Matches(s, a[j], env)
       [] r.f = "re.inter"   -> \A j \in 1..n : Matches(s, a[j], env)
       [] r.f = "re.comp"    -> ~Matches(s, a[1], env)
       [] r.f = "re.diff"    -> Matches(s, a[1], env) /\ ~Matches(s, a[2], env)
       [] r.f = "re.opt"     -> s = <<>> \/ Matches(s, a[1], env)
       [] r.f = "re.*"       -> MatchesLoop(s, a[1], 0, -1, env)
       [] r.f = "re.+"       -> MatchesLoop(s, a[1], 1, -1, env)
       [] r.f = "re.loop"    -> IF r.p[2] >= 0 /\ r.p[2] < r.p[1] THEN FALSE ELSE MatchesLoop(s, a[1], r.p[1], r.p[2], env)
       [] r.f = "re.^"       -> MatchesLoop(s, a[1], r.p[1], r.p[1], env)
       [] OTHER -> Assert(FALSE, <<"SmtLib!Matches: unsupported operator", r.f>>)

(* s in body^{lo..hi}; hi = -1 means unbounded.  Empty iterations are      *)
(* irrelevant except for reaching lo, which needs body to accept "".       *)
MatchesLoop(s, body, lo, hi, env) ==
  IF s = <<>> THEN lo <= 0 \/ Matches(<<>>, body, env)
  ELSE IF hi = 0 THEN FALSE
  ELSE \E k \in 1..Len(s) :
         /\ Matches(SubSeq(s, 1, k), body, env)
         /\ MatchesLoop(SubSeq(s, k + 1, Len(s)), body, IF lo > 0 THEN lo - 1 ELSE 0, IF hi > 0 THEN hi - 1 ELSE hi, env)

(* the value of t depends on division by zero (all subterms are looked at) *)
Undefined(t, env) ==
  IF t.k # "app" THEN FALSE
  ELSE \/ \E j \in 1..Len(t.args) : Undefined(t.args[j], env)
       \/ t.f \in {"div", "mod"} /\ Ev(t.args[2], env) = 0

Holds(t, env) == Ev(t, env)
=============================================================================
