#!/bin/sh
# offline setup: syntax/semantic check of every specification module, projection smoke test
set -e
cd "$(dirname "$0")"
for m in spec/*.tla; do
  java -cp /opt/veriftools/tla/tla2tools.jar:/opt/veriftools/tla/CommunityModules-deps.jar -DTLA-Library=spec tla2sany.SANY "$m" > .setup.log 2>&1 || { cat .setup.log; exit 1; }
  if grep -q "\*\*\* Errors\|Fatal error" .setup.log; then cat .setup.log; exit 1; fi
done
rm -f .setup.log
PYTHONPATH=. /venv/bin/python -c "import harness.project, harness.tlc, harness.common; print('setup ok')"
