import sys
sys.path.insert(0, "/verif")
from harness.checks import c03
c03.TIERS["quick"] = {"UNI": (6, 14, 25, 3)}
import os
os.environ["VERIF_EVIDENCE_SUFFIX"] = ".dev-uni"
sys.exit(c03.main("quick"))
