#!/venv/bin/python
"""tools/try_seed.py <seeded/dir> <check ids...> [--tier quick]
Applies seeded/<dir>/patch.diff to /repo, runs the given checks, records exit codes and VIOLATION lines in
seeded/<dir>/result.json, and undoes the patch (git -C /repo checkout -- .).  /repo must be clean."""
import json
import os
import subprocess
import sys
import time

V = os.path.dirname(os.path.dirname(os.path.abspath(__file__)))


def main():
    args = [a for a in sys.argv[1:] if not a.startswith("--")]
    tier = "quick"
    if "--thorough" in sys.argv:
        tier = "thorough"
    d, checks = args[0], args[1:]
    patch = os.path.join(d, "patch.diff")
    st = subprocess.run(["git", "-C", "/repo", "status", "--porcelain", "--untracked-files=no"], capture_output=True, text=True).stdout.strip()
    if st:
        sys.exit("/repo is not clean:\n" + st)
    subprocess.check_call(["git", "-C", "/repo", "apply", os.path.abspath(patch)])
    res = {}
    try:
        for c in checks:
            t0 = time.time()
            p = subprocess.run([os.path.join(V, "check"), c, "--tier", tier], capture_output=True, text=True, cwd=V,
                               env=dict(os.environ, VERIF_EVIDENCE_SUFFIX=".seedrun"))
            lines = [l for l in p.stdout.splitlines() if l.startswith(("VIOLATION", "KNOWN-FINDING", "MACHINERY"))]
            res[c] = {"exit": p.returncode, "wall_s": round(time.time() - t0, 1), "lines": [l[:400] for l in lines],
                      "summary": [l for l in p.stdout.splitlines() if (" %s:" % tier) in l][-1:]}
            print(c, "exit", p.returncode, "violations", sum(1 for l in lines if l.startswith("VIOLATION")))
    finally:
        subprocess.check_call(["git", "-C", "/repo", "checkout", "--", "."])
    out = os.path.join(d, "result.json")
    old = json.load(open(out)) if os.path.exists(out) else {}
    old.update(res)
    json.dump(old, open(out, "w"), indent=1)


if __name__ == "__main__":
    main()
