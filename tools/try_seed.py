#!/venv/bin/python
"""tools/try_seed.py <seeded/dir> <check ids...> [--tier quick]
Applies seeded/<dir>/patch.diff in a scratch worktree of /repo's HEAD, runs the given checks against that
checkout (VERIF_REPO), records exit codes and VIOLATION lines in seeded/<dir>/result.json and removes the worktree."""
import json
import os
import subprocess
import sys
import time

V = os.path.dirname(os.path.dirname(os.path.abspath(__file__)))


def main():
    args = [a for a in sys.argv[1:] if not a.startswith("--")]
    tier = "quick"
    if "--thorough" in sys.argv:
        tier = "thorough"
    d, checks = args[0], args[1:]
    patch = os.path.join(d, "patch.diff")
    # a scratch worktree of /repo's HEAD carries the patch; /repo itself is not touched (several seeds can run at once)
    name = os.path.basename(os.path.abspath(d))
    wt = "/tmp/tryseed_%s_%d" % (name, os.getpid())
    subprocess.check_call(["git", "-C", "/repo", "worktree", "add", "-q", "--detach", wt, "HEAD"])
    res = {}
    try:
        subprocess.check_call(["git", "-C", wt, "apply", os.path.abspath(patch)])
        for c in checks:
            t0 = time.time()
            p = subprocess.run([os.path.join(V, "check"), c, "--tier", tier], capture_output=True, text=True, cwd=V,
                               env=dict(os.environ, VERIF_EVIDENCE_SUFFIX=".seedrun-" + name, VERIF_REPO=wt))
            lines = [l for l in p.stdout.splitlines() if l.startswith(("VIOLATION", "KNOWN-FINDING", "MACHINERY"))]
            res[c] = {"exit": p.returncode, "wall_s": round(time.time() - t0, 1), "lines": [l[:400] for l in lines],
                      "summary": [l for l in p.stdout.splitlines() if (" %s:" % tier) in l][-1:]}
            print(name, c, "exit", p.returncode, "violations", sum(1 for l in lines if l.startswith("VIOLATION")))
            try:
                os.remove(os.path.join(V, "evidence", "%s.seedrun-%s.json" % (c, name)))
            except OSError:
                pass
    finally:
        subprocess.call(["git", "-C", "/repo", "worktree", "remove", "--force", wt])
    out = os.path.join(d, "result.json")
    old = json.load(open(out)) if os.path.exists(out) else {}
    old.update(res)
    json.dump(old, open(out, "w"), indent=1)


if __name__ == "__main__":
    main()
