check("C04", "tlc-denotational", "model_checking",
      "TLC enumerates every ordered tree shape up to 7 (thorough 8) nodes and every <A>/<B>/terminal labelling up to 5 (6) nodes; for each tree all ordered node pairs x 20 predicate instances are evaluated through evaluate() and every table entry is judged by TLC against spec/Predicates.tla; the order lemmas of spec/Paths.tla are model-checked over all path pairs (depth 4, arity 3). Exhaustive within these bounds, which contain every ancestor/descendant/identical/sideways configuration the predicates distinguish.",
      "Trusted: TLC, harness/project.py, the readings of islaspec fixed in DESIGN.md 6.1 (consecutive only on leaf pairs, nth counts node_2 itself, level as in the code comment that is its only definition).",
      "TLA+ specification of the predicates; TLC-enumerated trees replayed into evaluate(); TLC judges the recorded truth tables",
      "DESIGN.md section 5 C04")
