#!/venv/bin/python
"""Regenerates the generated blocks of DESIGN.md (findings tables from known_findings.json, seeded-change table)."""
import json, os, re, subprocess
V = os.path.dirname(os.path.dirname(os.path.abspath(__file__)))
kf = json.load(open(os.path.join(V, "known_findings.json")))["findings"]


def esc(s):
    return s.replace("|", "\\|").replace("\n", " ")


fixed = ["| property | commit | what failed |", "|---|---|---|"]
known = ["| id | property | what fails (narrow signature in known_findings.json) |", "|---|---|---|"]
for f in kf:
    what = re.sub(r"^fixed: property=\S+ \S+ ", "", f["what"])
    if f["status"] == "fixed":
        fixed.append("| %s | %s | %s |" % (f["property"], f.get("commit", ""), esc(what)))
    else:
        known.append("| %s | %s | %s |" % (f["id"], f["property"], esc(what)))
seeded = subprocess.run([os.path.join(V, "tools", "seeded_table.py")], capture_output=True, text=True).stdout.strip()
blocks = {"FIXED": "\n".join(fixed), "KNOWN": "\n".join(known), "SEEDED": seeded}
p = os.path.join(V, "DESIGN.md")
s = open(p).read()
for name, text in blocks.items():
    a, b = "<!-- BEGIN %s -->" % name, "<!-- END %s -->" % name
    assert a in s and b in s, name
    s = s[:s.index(a) + len(a)] + "\n" + text + "\n" + s[s.index(b):]
open(p, "w").write(s)
print("DESIGN.md updated: %d fixed, %d known, %d seeded rows" % (len(fixed) - 2, len(known) - 2, len(seeded.splitlines()) - 2))
