#!/bin/sh
# tools/run_all.sh <tier> <seed>... : every check once per seed on /repo's working tree; seed 0 writes evidence/<id>.json,
# other seeds write evidence/<id>.seed<k>.json (ignored by git).  One summary line per check in .work/run_all.log
TIER=$1; shift
cd /verif; mkdir -p .work
for S in "$@"; do
  for C in C01 C02 C03 C04 C05 C06 C07 C08 C09 C10 C11 C12 C13 C14 C15 C16 C17 C18 C19 C20 C21 C22; do
    SUF=""; [ "$S" != 0 ] && SUF=".seed$S"; [ "$TIER" = thorough ] && SUF=".thorough$SUF"
    T0=$(date +%s)
    VERIF_SEED=$S VERIF_EVIDENCE_SUFFIX=$SUF timeout 14000 ./check $C --tier $TIER > .work/run_$C.$TIER.$S.log 2>&1; RC=$?
    echo "$TIER seed=$S $C rc=$RC $(( $(date +%s) - T0 ))s $(grep -c '^VIOLATION' .work/run_$C.$TIER.$S.log) violations $(grep -c '^KNOWN-FINDING' .work/run_$C.$TIER.$S.log) known" >> .work/run_all.log
  done
done
