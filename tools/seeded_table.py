#!/venv/bin/python
"""Builds seeded/<id>/meta.json (property, what it needs, what was run, which checks catch it) from the seeder's
meta_agent.json and the recorded check results, and prints the table of DESIGN.md section 8.4."""
import glob
import json
import os

V = os.path.dirname(os.path.dirname(os.path.abspath(__file__)))
rows = []
for d in sorted(glob.glob(os.path.join(V, "seeded", "*"))):
    name = os.path.basename(d)
    ma = os.path.join(d, "meta_agent.json")
    rs = os.path.join(d, "result.json")
    if not os.path.exists(ma):
        continue
    a = json.load(open(ma))
    res = json.load(open(rs)) if os.path.exists(rs) else {}
    caught = sorted(c for c, r in res.items() if r["exit"] == 1)
    missed = sorted(c for c, r in res.items() if r["exit"] == 0)
    broken = sorted(c for c, r in res.items() if r["exit"] not in (0, 1))
    meta = {"property": a.get("property", name.split("-")[0]), "summary": a.get("summary", ""), "needs": str(a.get("needs") or a.get("needs_to_manifest") or ""),
            "files": a.get("files", []),
            "confirmed": "tools/confirm_seed.sh: demo.py exits 0 on a clean worktree of /repo HEAD and non-zero with patch.diff applied; the listed test files "
                         "give identical results with and without the patch (the seeder additionally ran: %s)" % str(a.get("tests_run", ""))[:600],
            "checks_run": {c: {"exit": r["exit"], "tier": "quick", "violations": [l for l in r["lines"] if l.startswith("VIOLATION")][:3]} for c, r in res.items()},
            "caught_by": caught, "not_caught_by": missed}
    json.dump(meta, open(os.path.join(d, "meta.json"), "w"), indent=1)
    rows.append((name, meta["property"], ", ".join(caught) or "-", ", ".join(missed + broken) or "-", (str(a.get("needs") or a.get("needs_to_manifest") or "") or "")[:140].replace("|", "/").replace("\n", " ")))
print("| seeded change | property | caught by (quick tier) | run but silent | needs |")
print("|---|---|---|---|---|")
for r in rows:
    print("| %s | %s | %s | %s | %s |" % r)
