#!/bin/sh
# tools/confirm_seed.sh <seed source dir> <k> <dest name> "<test files>"
# confirms a seeded change in a scratch worktree of /repo's HEAD: demo passes on the clean tree, fails with
# the patch; the listed test files give the same result with and without; then stores it under seeded/<dest name>/
set -u
SRC=$1; K=$2; NAME=$3; TESTS=$4
WT=/tmp/confirm_$NAME
rm -rf $WT; git -C /repo worktree prune; git -C /repo worktree add -q $WT HEAD || exit 2
cd $WT
PYTHONPATH=$WT/src timeout 600 /venv/bin/python $SRC/demo$K.py > /tmp/confirm_$NAME.clean.log 2>&1; CLEAN=$?
PYTHONPATH=$WT/src timeout 1500 /venv/bin/python -m pytest -q -p no:cacheprovider --timeout=900 $TESTS 2>&1 | grep -a "^FAILED tests\|passed\|failed" | sed 's/ in [0-9.]*s.*//; s/^=* //; s/ - .*//' | sort > /tmp/confirm_$NAME.tests_clean.log
git apply $SRC/patch$K.diff || { echo "patch does not apply"; exit 2; }
PYTHONPATH=$WT/src timeout 600 /venv/bin/python $SRC/demo$K.py > /tmp/confirm_$NAME.patched.log 2>&1; PATCHED=$?
PYTHONPATH=$WT/src timeout 1500 /venv/bin/python -m pytest -q -p no:cacheprovider --timeout=900 $TESTS 2>&1 | grep -a "^FAILED tests\|passed\|failed" | sed 's/ in [0-9.]*s.*//; s/^=* //; s/ - .*//' | sort > /tmp/confirm_$NAME.tests_patched.log
echo "demo clean exit=$CLEAN patched exit=$PATCHED"
if diff /tmp/confirm_$NAME.tests_clean.log /tmp/confirm_$NAME.tests_patched.log > /dev/null; then echo "tests: same results"; SAME=yes; else echo "tests: DIFFER"; diff /tmp/confirm_$NAME.tests_clean.log /tmp/confirm_$NAME.tests_patched.log | head; SAME=no; fi
tail -1 /tmp/confirm_$NAME.tests_clean.log
if [ $CLEAN -eq 0 ] && [ $PATCHED -ne 0 ] && [ $SAME = yes ]; then
  mkdir -p /verif/seeded/$NAME
  cp $SRC/patch$K.diff /verif/seeded/$NAME/patch.diff; cp $SRC/demo$K.py /verif/seeded/$NAME/demo.py; cp $SRC/meta$K.json /verif/seeded/$NAME/meta_agent.json
  tail -5 /tmp/confirm_$NAME.patched.log > /verif/seeded/$NAME/demo_output_with_patch.txt
  echo "CONFIRMED -> /verif/seeded/$NAME"
else echo "NOT CONFIRMED"; fi
cd /; git -C /repo worktree remove --force $WT
