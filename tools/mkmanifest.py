#!/venv/bin/python
"""Regenerates MANIFEST.json from the table below (one entry per built check)."""
import json, os
V = os.path.dirname(os.path.dirname(os.path.abspath(__file__)))
ALL = [json.loads(l)["id"] for l in open(os.path.join(V, "properties.jsonl"))]
HOOK_COMMITS = []
CHECKS = {}
ENGINES = {
 "tlc-denotational": "TLA+ denotational core (Paths, Trees, Grammars, Predicates, SmtLib, IslaSemantics ...) evaluated by TLC; TLC enumerates the bounded universe and judges values recorded from the implementation",
 "tlc-trace-solver": "Solver state machine (spec/Solver.tla) model-checked by TLC; traces recorded from ISLaSolver validated against it by TLC",
 "tlc-mbt-objects": "TreeObject / Session state machines; TLC-generated behaviours replayed on real objects, observations judged by TLC",
 "tlc-relations": "action predicates over observed pre/post values (spec/Relations.tla) judged by TLC",
 "tlc-cli": "CLI exit-code decision table and pipelines (spec/Cli.tla); TLC enumerates condition vectors, subprocess results judged by TLC",
}
NOT_APPLICABLE = {}   # id -> reason, for properties deliberately not claimed


def check(pid, engine, category, text, note, technique, design):
    CHECKS[pid] = {
        "property_id": pid, "quick_cmd": "./check %s --tier quick" % pid,
        "thorough_cmd": "./check %s --tier thorough" % pid, "evidence_file": "evidence/%s.json" % pid,
        "replay_cmd_template": "./check %s --replay {path}" % pid, "engine": engine,
        "level_claimed": {"category": category, "text": text, "design_ref": design},
        "level_note": note, "technique": technique}


exec(open(os.path.join(V, "tools", "checks_table.py")).read())

m = {"version": 1, "setup_cmd": "./setup.sh",
     "hooks": {"guard": "RINDPHI_ISLA_VERIF",
               "enable": "export RINDPHI_ISLA_VERIF=1 (every ./check sets it itself); isla is installed editable from /repo/src, so the working tree is what runs",
               "baseline_off_cmd": "cd /repo && env -u RINDPHI_ISLA_VERIF /venv/bin/python -m pytest -ra -q -p no:cacheprovider --timeout=900 --continue-on-collection-errors",
               "source_commits": HOOK_COMMITS, "add_only": True},
     "engines": [{"name": n, "path": "spec/", "kind_free_text": t,
                  "serves_properties": sorted(p for p, c in CHECKS.items() if c["engine"] == n)}
                 for n, t in ENGINES.items() if any(c["engine"] == n for c in CHECKS.values())],
     "checks": [CHECKS[p] for p in ALL if p in CHECKS],
     "not_applicable": [{"property_id": p, "reason": NOT_APPLICABLE.get(p, "check not built yet (work in progress; planned in DESIGN.md section 5)")}
                        for p in ALL if p not in CHECKS],
     "notes": "see DESIGN.md; known_findings.json lists genuine defects (fixed / known)"}
json.dump(m, open(os.path.join(V, "MANIFEST.json"), "w"), indent=1)
print("MANIFEST.json: %d checks, %d not claimed" % (len(m["checks"]), len(m["not_applicable"])))
