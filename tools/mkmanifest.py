#!/venv/bin/python
"""Regenerates MANIFEST.json from the table below (one entry per built check)."""
import json, os
V = os.path.dirname(os.path.dirname(os.path.abspath(__file__)))
ALL = [json.loads(l)["id"] for l in open(os.path.join(V, "properties.jsonl"))]
HOOK_COMMITS = []
CHECKS = {}
ENGINES = {
 "tlc-denotational": "TLA+ denotational core (Paths, Trees, Grammars, Predicates, SmtLib, IslaSemantics ...) evaluated by TLC; TLC enumerates the bounded universe and judges values recorded from the implementation",
 "tlc-trace-solver": "Solver state machine (spec/Solver.tla) model-checked by TLC; traces recorded from ISLaSolver validated against it by TLC",
 "tlc-mbt-objects": "TreeObject / Session state machines; TLC-generated behaviours replayed on real objects, observations judged by TLC",
 "tlc-relations": "action predicates over observed pre/post values (spec/Relations.tla) judged by TLC",
 "tlc-cli": "CLI exit-code decision table and pipelines (spec/Cli.tla); TLC enumerates condition vectors, subprocess results judged by TLC",
}
NOT_APPLICABLE = {}   # id -> reason, for properties deliberately not claimed


# extensions made after seeded changes showed gaps (DESIGN.md 8.4); appended to the level text of the check
ADDENDA = {
    "C01": "Families added later: root-argument predicates under numeric quantifiers, match expressions over the root nonterminal, SMT-level connectives in negative positions, conjunctions of count atoms.",
    "C05": "Added later: re.range with bounds that are special in other regex dialects; two-variable nested atoms with variable names that vary from term to term.",
    "C06": "Added later: a sibling grammar (same nonterminal names, other productions) evaluated after the original in the same interpreter; match expressions that elide a nullable nonterminal; evaluate() is also called without a prepared grammar graph.",
    "C08": "Added later: sibling grammar with per-task history, XPath indices >= 10 on a 12-column row.",
    "C10": "Added later: one parser object shared by all inputs of a case, with the lazily produced trees of an input drawn after the next parse has started.",
    "C11": "Added later: histories (the same grammar printed and parsed earlier in the interpreter, the earlier result mutated or handed to ISLaSolver(text, start_symbol=...)), hex-escape look-alike terminal texts.",
    "C12": "Added later: trees rooted in other nonterminals than <start>, a grammar with bracket-delimited terminals containing a blank; results nested deeper than 100 levels are unjudged (limit of TLC's JSON reader).",
    "C13": "Added later: expansions naming one nonterminal twice, single-child chains as inserted trees, markup-like terminals, a re-entrant recursive grammar; every raising insert_tree call is repeated in a python -O interpreter (the implementation guards its results with assert).",
    "C14": "Added later: a nullable and a non-nullable nonterminal sharing an alternative.",
    "C16": "Added later: replace_path(retain_id=True) as a model action.",
    "C17": "Added later: k-path caches filled on subtree objects before serialisation.",
    "C18": "Added later: sessions for a transitively nullable grammar and a 40-column row.",
    "C19": "Added later: grammars given as Python extension files, split over a .bnf and a .py file, and Python files whose grammar is not a grammar; inputs that satisfy exactly one of two constraint files.",
    "C20": "Added later: sibling grammars (same nonterminal names, other productions) interleaved in one interpreter.",
    "C21": "Added later: a CSV run with max_number_free_instantiations=10 (the setting of the project's evaluation script).",
}


def check(pid, engine, category, text, note, technique, design):
    if ADDENDA.get(pid):
        text = text + " " + ADDENDA[pid]
    CHECKS[pid] = {
        "property_id": pid, "quick_cmd": "./check %s --tier quick" % pid,
        "thorough_cmd": "./check %s --tier thorough" % pid, "evidence_file": "evidence/%s.json" % pid,
        "replay_cmd_template": "./check %s --replay {path}" % pid, "engine": engine,
        "level_claimed": {"category": category, "text": text, "design_ref": design},
        "level_note": note, "technique": technique}


exec(open(os.path.join(V, "tools", "checks_table.py")).read())

m = {"version": 1, "setup_cmd": "./setup.sh",
     "hooks": {"guard": "RINDPHI_ISLA_VERIF",
               "enable": "export RINDPHI_ISLA_VERIF=1 (every ./check sets it itself); isla is installed editable from /repo/src, so the working tree is what runs",
               "baseline_off_cmd": "cd /repo && env -u RINDPHI_ISLA_VERIF /venv/bin/python -m pytest -ra -q -p no:cacheprovider --timeout=900 --continue-on-collection-errors",
               "source_commits": HOOK_COMMITS, "add_only": True},
     "engines": [{"name": n, "path": "spec/", "kind_free_text": t,
                  "serves_properties": sorted(p for p, c in CHECKS.items() if c["engine"] == n)}
                 for n, t in ENGINES.items() if any(c["engine"] == n for c in CHECKS.values())],
     "checks": [CHECKS[p] for p in ALL if p in CHECKS],
     "not_applicable": [{"property_id": p, "reason": NOT_APPLICABLE.get(p, "check not built yet (work in progress; planned in DESIGN.md section 5)")}
                        for p in ALL if p not in CHECKS],
     "notes": "see DESIGN.md; known_findings.json lists genuine defects (fixed / known)"}
json.dump(m, open(os.path.join(V, "MANIFEST.json"), "w"), indent=1)
print("MANIFEST.json: %d checks, %d not claimed" % (len(m["checks"]), len(m["not_applicable"])))
