"""z3 4.11's SMT-LIB parser keeps reporting a stale error after one failed parse in the same
context.  Drivers call parser_healthy() after an exception and retire the worker process if the
parser is broken (harness.worker honours the module attribute EXIT_AFTER)."""
import z3


def parser_healthy():
    try:
        z3.parse_smt2_string("(assert (= 1 1))")
        return True
    except BaseException:
        return False
