"""Grammar catalogue shared by the checks (DESIGN.md section 5)."""

ASSGN = {
    "<start>": ["<stmt>"],
    "<stmt>": ["<assgn> ; <stmt>", "<assgn>"],
    "<assgn>": ["<var> := <rhs>"],
    "<rhs>": ["<var>", "<digit>"],
    "<var>": ["a", "b", "c"],
    "<digit>": ["0", "1", "2"],
}
ASSGN2 = dict(ASSGN, **{"<var>": ["a", "b"], "<digit>": ["0", "1"]})
XMLISH = {
    "<start>": ["<tree>"],
    "<tree>": ["[<id>]<inner>[/<id>]", "[<id>/]"],
    "<inner>": ["<tree>", "<tree><inner>", "<text>"],
    "<id>": ["a", "b"],
    "<text>": ["x", "y"],
}
NUM = {
    "<start>": ["<int>"],
    "<int>": ["<sign><digits>", "<digits>"],
    "<sign>": ["+", "-"],
    "<digits>": ["<digit>", "<digit><digits>"],
    "<digit>": ["0", "1", "2", "3"],
}
NULLABLE = {
    "<start>": ["<A><B>"],
    "<A>": ["a<A>", ""],
    "<B>": ["b", ""],
}
AMBIG = {
    "<start>": ["<A>"],
    "<A>": ["<A><A>", "a"],
}
LEFTREC = {
    "<start>": ["<E>"],
    "<E>": ["<E>+<T>", "<T>"],
    "<T>": ["x", "(<E>)"],
}
RIGHTREC = {
    "<start>": ["<L>"],
    "<L>": ["<I>,<L>", "<I>"],
    "<I>": ["x", "y"],
}
MULTICHAR = {
    "<start>": ["<kw> <kw>"],
    "<kw>": ["if", "iff", "f"],
}
CSVISH = {
    "<start>": ["<rows>"],
    "<rows>": ["<row>\n<rows>", "<row>\n"],
    "<row>": ["<field>;<row>", "<field>"],
    "<field>": ["x", "yy", ""],
}
TWOSTART = {
    "<start>": ["<A>", "b<A>"],
    "<A>": ["a", "a<A>"],
}
LENGTHS = {
    "<start>": ["<len>:<payload>"],
    "<len>": ["<digit>", "<digit><len>"],
    "<digit>": ["0", "1", "2", "3"],
    "<payload>": ["<ch>", "<ch><payload>"],
    "<ch>": ["x", "y"],
}

GRAMMARS = {
    "ASSGN": ASSGN, "ASSGN2": ASSGN2, "XMLISH": XMLISH, "NUM": NUM, "NULLABLE": NULLABLE,
    "AMBIG": AMBIG, "LEFTREC": LEFTREC, "RIGHTREC": RIGHTREC, "MULTICHAR": MULTICHAR,
    "CSVISH": CSVISH, "TWOSTART": TWOSTART, "LENGTHS": LENGTHS,
}


def wide(n=40):
    """one alternative with n children (datrie alphabet boundary is 28)"""
    return {"<start>": ["<row>"], "<row>": ["<d>" * n], "<d>": ["0", "1"]}
