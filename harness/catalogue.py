"""Grammar catalogue shared by the checks (DESIGN.md section 5)."""

ASSGN = {
    "<start>": ["<stmt>"],
    "<stmt>": ["<assgn> ; <stmt>", "<assgn>"],
    "<assgn>": ["<var> := <rhs>"],
    "<rhs>": ["<var>", "<digit>"],
    "<var>": ["a", "b", "c"],
    "<digit>": ["0", "1", "2"],
}
ASSGN2 = dict(ASSGN, **{"<var>": ["a", "b"], "<digit>": ["0", "1"]})
XMLISH = {
    "<start>": ["<tree>"],
    "<tree>": ["(<id>)<inner>(/<id>)", "(<id>/)"],
    "<inner>": ["<tree>", "<tree><inner>", "<text>"],
    "<id>": ["a", "b"],
    "<text>": ["x", "y"],
}
NUM = {
    "<start>": ["<int>"],
    "<int>": ["<sign><digits>", "<digits>"],
    "<sign>": ["+", "-"],
    "<digits>": ["<digit>", "<digit><digits>"],
    "<digit>": ["0", "1", "2", "3"],
}
NULLABLE = {
    "<start>": ["<A><B>"],
    "<A>": ["a<A>", ""],
    "<B>": ["b", ""],
}
AMBIG = {
    "<start>": ["<A>"],
    "<A>": ["<A><A>", "a"],
}
LEFTREC = {
    "<start>": ["<E>"],
    "<E>": ["<E>+<T>", "<T>"],
    "<T>": ["x", "(<E>)"],
}
RIGHTREC = {
    "<start>": ["<L>"],
    "<L>": ["<I>,<L>", "<I>"],
    "<I>": ["x", "y"],
}
MULTICHAR = {
    "<start>": ["<kw> <kw>"],
    "<kw>": ["if", "iff", "f"],
}
CSVISH = {
    "<start>": ["<rows>"],
    "<rows>": ["<row>\n<rows>", "<row>\n"],
    "<row>": ["<field>;<row>", "<field>"],
    "<field>": ["x", "yy", ""],
}
TWOSTART = {
    "<start>": ["<A>", "b<A>"],
    "<A>": ["a", "a<A>"],
}
LENGTHS = {
    "<start>": ["<len>:<payload>"],
    "<len>": ["<digit>", "<digit><len>"],
    "<digit>": ["0", "1", "2", "3"],
    "<payload>": ["<ch>", "<ch><payload>"],
    "<ch>": ["x", "y"],
}

RECSTART_R = {"<start>": ["a<start>", "b"]}
RECSTART_L = {"<start>": ["<start>a", "b", ""]}
RECSTART_M = {"<start>": ["(<start>)<start>", "<A>"], "<A>": ["x", ""]}

# terminals beyond ASCII: Latin-1 (below \u{100}, which z3's as_string() decodes) and beyond (which it leaves escaped)
UNI = {"<start>": ["<S>"], "<S>": ["<A>", "<A><S>"], "<A>": ["\u00e4", "a", "\u20ac", "\u0100"]}
QUOTED = {"<start>": ["<item>", "<item>,<start>"], "<item>": ["\"<var>\"", "(<var>)", "'<var>'"], "<var>": ["a", "b", "\\"]}

# a nullable and a non-nullable nonterminal with an identical alternative; an expansion naming one nonterminal twice
SHAREDALT = {"<start>": ["<decl>"], "<decl>": ["<ws><id><ows>=<ows><id>"], "<ws>": [" "], "<ows>": ["", " "], "<id>": ["a", "b"]}
PAIRS = {"<start>": ["<pair>", "<pair>;<start>"], "<pair>": ["<entry>=<entry>"], "<entry>": ["<key>", "(<pair>)"], "<key>": ["a", "b"]}

# sibling of ASSGN2: the same nonterminal names, other productions (<assgn> has a second alternative, <digit> reaches <var>);
# evaluated after ASSGN2 in the same interpreter (state kept per nonterminal name must not leak across grammars)
ASSGN2S = {"<start>": ["<stmt>"], "<stmt>": ["<assgn> ; <stmt>", "<assgn>"], "<assgn>": ["<var> := <rhs>", "!<var>"],
           "<rhs>": ["<var>", "<digit>"], "<var>": ["a", "b"], "<digit>": ["0", "1", "#<var>"]}
# terminals that look like markup: bracket-delimited but with a blank inside, so not nonterminals
MARKUP = {"<start>": ["<doc>"], "<doc>": ["<!DOCTYPE html><body>", "<body>"], "<body>": ["<p><br /><body>", ""], "<p>": ["x", "<br />"]}
# a recursive nonterminal that is re-entered along two routes (through unary chains)
REENTRANT = {"<start>": ["<X>"], "<X>": ["<Y>", "<P>", "a"], "<Y>": ["<Z>"], "<Z>": ["<X>!", "z"], "<P>": ["(<X>)"]}
# nullable only through a chain, the nullable symbols declared after their users
NULLCHAIN = {"<start>": ["<a><q>"], "<q>": ["<a>z"], "<a>": ["<b><c>"], "<b>": ["", "x"], "<c>": ["", "y"]}
SIBLING_OF = {"ASSGN2S": ("ASSGN2", "a := 1 ; b := a")}      # grammar -> (earlier grammar, an input of it)
WIDE12 = {"<start>": ["<row>"], "<row>": ["<d>" * 12], "<d>": ["0", "1"]}

GRAMMARS = {
    "SHAREDALT": SHAREDALT, "PAIRS": PAIRS, "ASSGN2S": ASSGN2S, "WIDE12": WIDE12, "MARKUP": MARKUP, "NULLCHAIN": NULLCHAIN, "REENTRANT": REENTRANT,
    "ASSGN": ASSGN, "ASSGN2": ASSGN2, "XMLISH": XMLISH, "NUM": NUM, "NULLABLE": NULLABLE,
    "AMBIG": AMBIG, "LEFTREC": LEFTREC, "RIGHTREC": RIGHTREC, "MULTICHAR": MULTICHAR,
    "CSVISH": CSVISH, "TWOSTART": TWOSTART, "LENGTHS": LENGTHS,
    "QUOTED": QUOTED, "UNI": UNI, "RECSTART_R": RECSTART_R, "RECSTART_L": RECSTART_L, "RECSTART_M": RECSTART_M,
}


def wide(n=40):
    """one alternative with n children (datrie alphabet boundary is 28)"""
    return {"<start>": ["<row>"], "<row>": ["<d>" * n], "<d>": ["0", "1"]}


# ---------------------------------------------------------------- hand-written formula catalogue
from harness.formulas import (FA, EX, FAI, EXI, AND, OR, NOT, TRUE, FALSE, PRED, COUNT, SMT, M, MCH, MNT, MOPT,
                              set_num_bounds)
from harness.smt import A, I, S, V


def _eq(a, b):
    return SMT(A("=", V(a), V(b) if isinstance(b, str) and not b.startswith("=") else S(b[1:])))


def lit(a, s):
    return SMT(A("=", V(a), S(s)))


def hand_formulas(name):
    """(family, ast) pairs with match expressions, deep nesting and corner cases, per grammar"""
    F = []
    add = lambda fam, f: F.append((fam, set_num_bounds(f)))
    if name in ("ASSGN", "ASSGN2"):
        add("doc-defuse", FA("<assgn>", "a", EX("<assgn>", "d", AND(PRED("before", "d", "a"),
            FA("<var>", "r", EX("<var>", "l", SMT(A("=", V("l"), V("r"))), inn="d"), inn="a")))))
        add("mexpr-unique", FA("<assgn>", "x", NOT(SMT(A("=", V("l"), V("r")))), mexpr=M(MNT("<var>", "l"), MCH(" := "), MNT("<rhs>", "r"))))
        add("mexpr-unique", FA("<assgn>", "x", lit("r", "a"), mexpr=M(MNT("<var>"), MCH(" := "), MNT("<var>", "r"))))
        add("mexpr-unique", EX("<assgn>", "x", lit("r", "1"), mexpr=M(MNT("<var>"), MCH(" := "), MNT("<digit>", "r"))))
        add("mexpr-unique", FA("<stmt>", "s", NOT(SMT(A("=", V("a1"), V("a2")))), mexpr=M(MNT("<assgn>", "a1"), MCH(" ; "), MNT("<assgn>", "a2"))))
        add("mexpr-optional", FA("<stmt>", "s", EX("<var>", "v", lit("v", "a"), inn="a1"), mexpr=M(MNT("<assgn>", "a1"), MOPT(MCH(" ; "), MNT("<stmt>")))))
        add("mexpr-optional", EX("<stmt>", "s", AND(lit("l", "b"), PRED("inside", "l", "s")), mexpr=M(MNT("<var>", "l"), MCH(" := "), MNT("<rhs>"), MOPT(MCH(" ; "), MNT("<stmt>")))))
        add("mexpr-unique", EX("<stmt>", "s", AND(lit("l", "a"), FA("<var>", "w", lit("w", "a"), inn="t")), mexpr=M(MNT("<var>", "l"), MCH(" := "), MNT("<rhs>"), MCH(" ; "), MNT("<stmt>", "t"))))
        add("mexpr-literal", EX("<assgn>", "x", TRUE, mexpr=M(MCH("a := "), MNT("<rhs>"))))
        add("mexpr-literal", FA("<assgn>", "x", EX("<digit>", "d", TRUE, inn="x"), mexpr=M(MCH("b := "), MNT("<rhs>", "r"))))
        add("nested-in", FA("<stmt>", "s", FA("<assgn>", "a", EX("<var>", "v", PRED("inside", "v", "s"), inn="a"), inn="s")))
        add("same-pos", FA("<assgn>", "a", FA("<assgn>", "b", OR(PRED("same_position", "a", "b"), NOT(SMT(A("=", V("a"), V("b"))))))))
        add("count", COUNT("start", "<assgn>", 2))
        add("count", COUNT("start", "<stmt>", 2))
        add("count", FA("<stmt>", "s", OR(COUNT("s", "<stmt>", 1), COUNT("s", "<stmt>", 3), lit("s", "a := b ; a := a"))))
        add("count", FA("<stmt>", "s", OR(COUNT("s", "<var>", 1), COUNT("s", "<var>", 2), NOT(SMT(A("<", A("str.len", V("s")), I(7)))))))
        add("numeric-exists-count", EXI("n", AND(COUNT("start", "<var>", "n"), COUNT("start", "<assgn>", "n"))))
        add("numeric-forall-count", FAI("n", OR(NOT(COUNT("start", "<digit>", "n")), SMT(A("<=", A("str.to.int", V("n")), I(1))))))
        add("numeric-all-nonneg", FAI("n", SMT(A(">=", A("str.to.int", V("n")), I(0)))))
        add("start-quantified", FA("<start>", "s", EX("<stmt>", "t", SMT(A("=", A("str.len", V("t")), I(6))), inn="s")))
        add("conj-exists-forall", AND(EX("<var>", "k", lit("k", "a")), FA("<digit>", "d", lit("d", "1"))))
        add("conj-exists-forall", AND(EX("<assgn>", "x", lit("l", "b"), mexpr=M(MNT("<var>", "l"), MCH(" := "), MNT("<rhs>"))),
                                      FA("<rhs>", "r", SMT(A("=", A("str.len", V("r")), I(1)))), FA("<digit>", "d", NOT(lit("d", "0")))))
        # absorption / complementary-literal shapes over structural predicates (they stay NegatedFormula objects)
        P_, Q_ = PRED("before", "a1", "a2"), PRED("same_position", "a1", "a2")
        R_ = SMT(A("=", V("a1"), V("a2")))
        for k, body in enumerate([OR(AND(P_, Q_), NOT(P_)), OR(NOT(P_), AND(Q_, P_)), AND(OR(P_, Q_), NOT(P_)), AND(NOT(Q_), OR(P_, Q_)),
                                  OR(AND(P_, R_), NOT(P_)), AND(OR(Q_, R_), NOT(Q_)), OR(AND(NOT(P_), R_), P_), AND(OR(NOT(P_), Q_), P_)]):
            add("absorption", FA("<assgn>", "a1", FA("<assgn>", "a2", body)))
        add("rename-capture", AND(EX("<var>", "v", lit("v", "a")),
                                  FA("<var>", "v", EX("<assgn>", "s", EX("<var>", "v_0", AND(SMT(A("=", V("v"), V("v_0"))), PRED("different_position", "v", "v_0")), inn="s")))))
        add("rename-capture", AND(FA("<var>", "x", NOT(lit("x", "c"))), EX("<var>", "x", FA("<stmt>", "s", FA("<var>", "x_0", OR(SMT(A("=", V("x"), V("x_0"))), PRED("before", "x", "x_0")), inn="s")))))
        # numeric quantifier (quantifier-elimination strategy) + structural predicate whose argument is the root
        add("numeric-pred-root", EXI("n", EX("<assgn>", "a", AND(PRED("inside", "a", "start"), COUNT("a", "<var>", "n")))))
        add("numeric-pred-root", FAI("n", FA("<stmt>", "t", OR(PRED("nth", 1, "t", "start"), NOT(PRED("direct_child", "t", "start")),
                                                                SMT(A("<", A("str.to.int", V("n")), I(0)))))))
        add("numeric-pred-root", EXI("n", AND(SMT(A("=", A("str.to.int", V("n")), I(1))), EX("<stmt>", "t", PRED("direct_child", "t", "start")))))
        # match expressions over the root nonterminal reaching several levels down
        add("mexpr-root", FA("<start>", "s", NOT(SMT(A("=", V("l"), V("r")))), mexpr=M(MNT("<var>", "l"), MCH(" := "), MNT("<rhs>", "r"))))
        add("mexpr-root", EX("<start>", "s", SMT(A("=", V("l"), V("r"))), mexpr=M(MNT("<var>", "l"), MCH(" := "), MNT("<var>", "r"))))
        add("mexpr-root", FA("<start>", "s", lit("l", "a"), mexpr=M(MNT("<var>", "l"), MCH(" := "), MNT("<rhs>"), MCH(" ; "), MNT("<stmt>"))))
        # SMT-level connectives (prefix notation) in negative positions
        O_ = SMT(A("or", A("=", V("v"), S("a")), A("=", V("d"), S("1"))))
        N_ = SMT(A("and", A("=", V("v"), S("b")), A("=", V("d"), S("1"))))      # ("not" inside an S-expression is not ISLa syntax)
        add("smt-connective-negated", FA("<var>", "v", FA("<digit>", "d", NOT(O_))))
        add("smt-connective-negated", FA("<assgn>", "x", FA("<var>", "v", FA("<digit>", "d", OR(NOT(O_), lit("x", "a := 1")), inn="x"), inn="x")))
        add("smt-connective-negated", EX("<var>", "v", EX("<digit>", "d", NOT(N_))))
        add("smt-connective-negated", FA("<var>", "v", EX("<digit>", "d", NOT(OR(O_, N_)))))
        # several semantic-predicate atoms over the same tree
        add("count-conj", AND(COUNT("start", "<var>", 3), COUNT("start", "<digit>", 1)))
        add("count-conj", AND(COUNT("start", "<assgn>", 2), COUNT("start", "<var>", 3)))
        add("count-conj", EX("<stmt>", "s", AND(COUNT("s", "<var>", 2), COUNT("s", "<digit>", 0), COUNT("s", "<assgn>", 1))))
        # copy-pasted blocks whose variable names share a stem and differ in a numeric suffix
        add("rename-capture", AND(FA("<assgn>", "e_1", EX("<var>", "e_2", lit("e_2", "a"), inn="e_1")),
                                  FA("<assgn>", "e_1", EX("<var>", "e_2", NOT(lit("e_2", "b")), inn="e_1"))))
        add("rename-capture", AND(EX("<stmt>", "e_1", FA("<var>", "e_2", lit("e_2", "a"), inn="e_1")),
                                  EX("<stmt>", "e_1", FA("<var>", "e_2", FA("<digit>", "e_3", OR(lit("e_2", "b"), lit("e_3", "0")), inn="e_1"), inn="e_1"))))
        add("vacuous-body", FA("<digit>", "d", FALSE))
        add("vacuous-body", EX("<digit>", "d", TRUE))
        add("vacuous-body", FA("<digit>", "d", SMT(A("=", I(1), I(2)))))
        add("vacuous-body", FA("<digit>", "d", EX("<var>", "v", lit("v", "b"))))
    if name == "XMLISH":
        add("mexpr-unique", FA("<tree>", "t", SMT(A("=", V("o"), V("c"))), mexpr=M(MCH("("), MNT("<id>", "o"), MCH(")"), MNT("<inner>"), MCH("(/"), MNT("<id>", "c"), MCH(")"))))
        add("mexpr-unique", EX("<tree>", "t", lit("o", "a"), mexpr=M(MCH("("), MNT("<id>", "o"), MCH("/)"))))
        add("mexpr-nested", FA("<tree>", "t", NOT(SMT(A("=", V("o"), V("i")))), mexpr=M(MCH("("), MNT("<id>", "o"), MCH(")("), MNT("<id>", "i"), MCH("/)(/"), MNT("<id>"), MCH(")"))))
        add("level", FA("<id>", "x", FA("<id>", "y", OR(NOT(PRED("level", ("s", "EQ"), ("s", "<tree>"), "x", "y")), PRED("same_position", "x", "y"), SMT(A("=", V("x"), V("y")))))))
        add("level", EX("<text>", "x", EX("<id>", "y", PRED("level", ("s", "GE"), ("s", "<inner>"), "y", "x"))))
        add("nth", FA("<tree>", "t", FA("<id>", "i", OR(NOT(PRED("nth", 1, "i", "t")), PRED("direct_child", "i", "t")), inn="t")))
        add("count", FA("<tree>", "t", OR(COUNT("t", "<id>", 1), COUNT("t", "<id>", 2), COUNT("t", "<tree>", 2))))
        add("consecutive", EX("<id>", "x", EX("<text>", "y", TRUE)))
    if name == "NULLABLE":
        add("epsilon", FA("<A>", "x", OR(SMT(A("=", A("str.len", V("x")), I(0))), EX("<A>", "y", NOT(PRED("same_position", "x", "y")), inn="x"))))
        add("epsilon", EX("<B>", "b", SMT(A("=", V("b"), S("")))))
        add("epsilon", FA("<A>", "x", EX("<A>", "y", AND(PRED("inside", "y", "x"), SMT(A("=", V("y"), S("")))))))
        add("mexpr-nullable", EX("<A>", "x", SMT(A("=", V("r"), S(""))), mexpr=M(MCH("a"), MNT("<A>", "r"))))
        add("mexpr-nullable", FA("<start>", "s", SMT(A("=", V("b"), S("b"))), mexpr=M(MNT("<A>"), MNT("<B>", "b"))))
        add("count", COUNT("start", "<A>", 2))
        # match expressions whose text leaves out a nonterminal that derives the empty string
        add("mexpr-elided-nullable", FA("<start>", "s", SMT(A("=", V("x"), S("a"))), mexpr=M(MNT("<A>", "x"))))
        add("mexpr-elided-nullable", EX("<start>", "s", SMT(A("=", A("str.len", V("x")), I(0))), mexpr=M(MNT("<A>", "x"))))
        add("mexpr-elided-nullable", FA("<start>", "s", SMT(A("=", V("y"), S("b"))), mexpr=M(MNT("<B>", "y"))))
        add("mexpr-elided-nullable", FA("<A>", "y", FALSE, mexpr=M(MCH("a"))))
        add("mexpr-elided-nullable", EX("<start>", "s", TRUE, mexpr=M(MCH("ab"))))
    if name == "AMBIG":
        add("plain", FA("<A>", "x", EX("<A>", "y", PRED("inside", "x", "y"))))
        add("mexpr-ambiguous", EX("<A>", "x", PRED("before", "l", "r"), mexpr=M(MNT("<A>", "l"), MNT("<A>", "r"))))
        add("mexpr-ambiguous", FA("<A>", "x", SMT(A("=", V("l"), S("a"))), mexpr=M(MNT("<A>", "l"), MNT("<A>"), MNT("<A>"))))
        add("count", EXI("n", AND(COUNT("start", "<A>", "n"), SMT(A(">", A("str.to.int", V("n")), I(2))))))
    if name == "NUM":
        add("to-int", FA("<digits>", "d", SMT(A(">=", A("str.to.int", V("d")), I(0)))))
        add("to-int", EX("<digits>", "d", SMT(A("=", A("str.to.int", V("d")), I(10)))))
        add("to-int", FA("<digit>", "d", EX("<digit>", "e", SMT(A("<=", A("str.to.int", V("d")), A("str.to.int", V("e")))))))
        add("to-int", EX("<digits>", "d", SMT(A("=", A("+", A("str.to.int", V("d")), I(1)), A("*", I(2), I(2))))))
        add("mexpr-optional", EX("<int>", "x", AND(SMT(A("=", V("s"), S("-"))), SMT(A(">", A("str.to.int", V("d")), I(1)))), mexpr=M(MNT("<sign>", "s"), MNT("<digits>", "d"))))
        add("numeric-exists-eq", EXI("n", EX("<digits>", "d", SMT(A("=", V("d"), V("n"))))))
        add("numeric-forall-eq", FAI("n", FA("<digits>", "d", OR(NOT(SMT(A("=", A("str.to.int", V("d")), A("str.to.int", V("n"))))), SMT(A("<", A("str.to.int", V("n")), I(20)))))))
    if name == "WIDE":
        add("wide", EX("<d>", "x", lit("x", "1")))
        add("wide", FA("<d>", "x", lit("x", "0")))
        add("wide", COUNT("start", "<d>", 40))
        add("wide", EX("<d>", "x", EX("<d>", "y", AND(PRED("before", "x", "y"), lit("x", "1"), lit("y", "1")))))
        add("wide", EX("<row>", "r", EX("<d>", "x", AND(PRED("nth", 30, "x", "r"), lit("x", "1")), inn="r")))
    if name == "QUOTED":
        add("mexpr-quote", FA("<item>", "i", lit("v", "a"), mexpr=M(MCH('"'), MNT("<var>", "v"), MCH('"'))))
        add("mexpr-quote", EX("<item>", "i", lit("v", "\\"), mexpr=M(MCH("'"), MNT("<var>", "v"), MCH("'"))))
        add("mexpr-quote", EX("<item>", "i", SMT(A("=", V("i"), S('"b"'))), mexpr=M(MCH('"'), MNT("<var>"), MCH('"'))))
        add("plain", FA("<var>", "v", NOT(lit("v", "\\"))))
        add("plain", EX("<item>", "i", SMT(A("str.contains", V("i"), S('"')))))
    if name == "UNI":
        for ch in ("\u00e4", "\u20ac", "\u0100"):
            add("unicode-literal", EX("<A>", "x", lit("x", ch)))
            add("unicode-literal", FA("<A>", "x", NOT(lit("x", ch))))
            add("unicode-literal", EX("<A>", "x", SMT(A("=", A("str.to_code", V("x")), I(ord(ch))))))
            add("unicode-literal", FA("<start>", "s", NOT(SMT(A("str.contains", V("s"), S(ch))))))
            add("unicode-mexpr", EX("<S>", "s", lit("r", "a"), mexpr=M(MCH(ch), MNT("<S>", "r"))))
            add("unicode-mexpr", FA("<S>", "s", NOT(lit("x", ch)), mexpr=M(MNT("<A>", "x"), MOPT(MNT("<S>")))))
        add("unicode-literal", FA("<A>", "x", SMT(A("=", A("str.len", V("x")), I(1)))))
        add("unicode-literal", EX("<start>", "s", lit("s", "\u20aca\u00e4")))
        add("unicode-literal", EX("<A>", "x", EX("<A>", "y", AND(PRED("before", "x", "y"), lit("x", "\u20ac"), lit("y", "\u0100")))))
        add("unicode-literal", FA("<A>", "x", SMT(A("str.in_re", V("x"), A("re.union", A("str.to_re", S("a")), A("str.to_re", S("\u20ac")))))))
        add("unicode-literal", FA("<A>", "x", SMT(A("str.<=", S("\u00e4"), V("x")))))
    if name == "CSVISH":
        add("count", FA("<row>", "r", EX("<row>", "q", OR(PRED("same_position", "r", "q"), PRED("inside", "r", "q"), PRED("inside", "q", "r"), TRUE))))
        add("numeric-exists-count", EXI("n", FA("<row>", "r", OR(COUNT("r", "<field>", "n"), EX("<row>", "q", AND(PRED("inside", "r", "q"), NOT(PRED("same_position", "r", "q"))))))))
        add("count", COUNT("start", "<field>", 2))
    return F
