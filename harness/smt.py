"""SMT-LIB terms in the wire format of spec/SmtLib.tla, their SMT-LIB 2 text, and the
operator x value grid of C05.  No verdicts are computed here."""
import itertools
import random


def V(name):
    return {"k": "var", "v": name}


def S(s):
    return {"k": "str", "s": [ord(c) for c in s]}


def I(i):
    return {"k": "int", "i": i}


def B(b):
    return {"k": "bool", "b": bool(b)}


def A(f, *args, p=()):
    return {"k": "app", "f": f, "args": list(args), "p": list(p)}


def smt_string(cps):
    out = []
    for c in cps:
        if c == 34:
            out.append('""')
        elif c == 92 or c < 32 or c > 126:
            out.append("\\u{%x}" % c)
        else:
            out.append(chr(c))
    return '"' + "".join(out) + '"'


def to_smt2(t):
    k = t["k"]
    if k == "var":
        return t["v"]
    if k == "str":
        return smt_string(t["s"])
    if k == "int":
        return str(t["i"]) if t["i"] >= 0 else "(- %d)" % -t["i"]
    if k == "bool":
        return "true" if t["b"] else "false"
    f = t["f"]
    args = " ".join(to_smt2(a) for a in t["args"])
    if f == "re.loop":
        lo, hi = t["p"]
        head = "(_ re.loop %d %d)" % (lo, hi) if hi >= 0 else "(_ re.loop %d)" % lo
        return "(%s %s)" % (head, args)
    if f == "re.^":
        return "((_ re.^ %d) %s)" % (t["p"][0], args)
    if f == "str.to.int":
        f = "str.to_int"
    if not t["args"]:
        return f
    return "(%s %s)" % (f, args)


def variables(t, acc=None):
    acc = set() if acc is None else acc
    if t["k"] == "var":
        acc.add(t["v"])
    elif t["k"] == "app":
        for a in t["args"]:
            variables(a, acc)
    return acc


def subst(t, env):
    """replace variables by string literals (env: name -> python str)"""
    if t["k"] == "var":
        return S(env[t["v"]]) if t["v"] in env else t
    if t["k"] == "app":
        return dict(t, args=[subst(a, env) for a in t["args"]])
    return t


def ops_in(t, acc=None):
    acc = set() if acc is None else acc
    if t["k"] == "app":
        acc.add(t["f"])
        for a in t["args"]:
            ops_in(a, acc)
    return acc


# ------------------------------------------------------------------ the grid
STRS = ["", "a", "b", "ab", "ba", "aab", "abab", "\n", "a\nb", '"', "\\", "a\"b", "ä", "€", " ", "0", "7", "10", "007", "12a", "-1", "+5"]
SHORT = ["", "a", "b", "ab", "ba", "\n", '"', "ä", "0", "7", "10"]
INTS = [-7, -3, -1, 0, 1, 2, 3, 5, 7, 10]
SMALL = [-2, -1, 0, 1, 2, 3]
NUMERALS = ["0", "7", "10", "007", "123", "-1", "+5", "-10", "00"]


def regexes(rnd, depth=2):
    base = [A("str.to_re", S("a")), A("str.to_re", S("ab")), A("str.to_re", S("")), A("re.range", S("a"), S("b")),
            A("re.range", S("0"), S("9")), A("re.allchar"), A("re.all"), A("re.none"), A("str.to_re", S("\n")),
            A("re.range", S("b"), S("a"))]
    if depth == 0:
        return base
    sub = regexes(rnd, depth - 1)
    out = list(base)
    pick = lambda: rnd.choice(sub)
    for r in sub[:10]:
        out += [A("re.*", r), A("re.+", r), A("re.opt", r), A("re.comp", r),
                A("re.loop", r, p=(1, 2)), A("re.loop", r, p=(0, 3)), A("re.loop", r, p=(2, -1)), A("re.^", r, p=(2,)),
                A("re.++", r, pick()), A("re.++", r, pick(), pick()), A("re.union", r, pick()), A("re.inter", r, pick()),
                A("re.diff", r, pick())]
    out += [A("re.loop", A("str.to_re", S("ab")), p=(1, 2)), A("re.loop", A("re.union", A("str.to_re", S("a")), A("str.to_re", S("bb"))), p=(2, 3)),
            A("re.comp", A("re.union", A("str.to_re", S("a")), A("str.to_re", S("b")))),
            A("re.++", A("re.opt", A("str.to_re", S("-"))), A("re.+", A("re.range", S("0"), S("9"))))]
    return out


def grid(seed, scale=1.0):
    """yields (family, term) pairs; non-Boolean terms are turned into atoms by the driver
    (compared with the value Z3 computes and with a different value)."""
    rnd = random.Random(seed)

    def some(xs, n):
        n = max(1, int(n * scale))
        return xs if len(xs) <= n else rnd.sample(xs, n)
    out = []
    add = lambda fam, t: out.append((fam, t))
    sp = [S(s) for s in STRS]
    sh = [S(s) for s in SHORT]
    ip = [I(i) for i in INTS]
    sm = [I(i) for i in SMALL]
    # Core / Ints
    for a, b in some(list(itertools.product(ip, ip)), 60):
        for f in ("=", "<", "<=", ">", ">=", "distinct"):
            add("int-cmp", A(f, a, b))
        for f in ("+", "-", "*", "div", "mod"):
            add("int-arith", A(f, a, b))
    for a, b in itertools.product(sm + [I(7), I(-7)], sm):      # exhaustive on the small palette
        add("int-arith", A("div", a, b))
        add("int-arith", A("mod", a, b))
    for st in ("ab", "a\nb", ""):
        for i, n in itertools.product(SMALL + [5], SMALL + [5]):
            add("str-fun", A("str.substr", S(st), I(i), I(n)))
        for i in SMALL + [5]:
            add("str-fun", A("str.at", S(st), I(i)))
    for a in ip:
        add("int-arith", A("abs", a))
        add("int-arith", A("-", a))
    for a, b in some(list(itertools.product(sm, [I(0), I(1), I(2), I(3)])), 12):
        add("int-arith", A("^", a, b))
    for a, b, c in some(list(itertools.product(sm, sm, sm)), 25):
        add("int-arith", A("+", a, b, c))
        add("int-arith", A("-", a, b, c))
        add("int-arith", A("*", a, b, c))
        add("int-arith", A("ite", A("<", a, b), b, c))
    # Strings
    for a in sp:
        add("str-fun", A("str.len", a))
        add("str-pred", A("str.is_digit", a))
        add("str-fun", A("str.to_code", a))
    for a in NUMERALS:
        add("str-to-int", A("str.to.int", S(a)))
    for i in INTS + [48, 97, 228, 10, 34, 196607, 196608]:
        add("str-fun", A("str.from_code", I(i)))
    for i in INTS + [12, 100, 123]:
        add("str-fun", A("str.from_int", I(i)))
    for a, b in some(list(itertools.product(sp, sp)), 120):
        for f in ("=", "str.<=", "str.prefixof", "str.suffixof", "str.contains", "distinct"):
            add("str-pred", A(f, a, b))
        add("str-fun", A("str.++", a, b))
    for a, b, c in some(list(itertools.product(sh, sh, sh)), 60):
        add("str-fun", A("str.++", a, b, c))
        add("str-fun", A("str.replace", a, b, c))
        add("str-fun", A("str.replace_all", a, b, c))
    for a in some(sp, 14):
        for i in SMALL + [5]:
            add("str-fun", A("str.at", a, I(i)))
            for n in some(SMALL + [5], 4):
                add("str-fun", A("str.substr", a, I(i), I(n)))
    for a, b in some(list(itertools.product(sp, sh)), 40):
        for i in some(SMALL + [4], 3):
            add("str-fun", A("str.indexof", a, b, I(i)))
    # RegLan
    rs = regexes(rnd)
    for r in some(rs, 150):
        for s in some(STRS, 8):
            add("regex", A("str.in_re", S(s), r))
    # nested / Boolean structure
    atoms = [t for fam, t in out if fam in ("int-cmp", "str-pred", "regex")]
    for _ in range(max(10, int(150 * scale))):
        a, b, c = rnd.choice(atoms), rnd.choice(atoms), rnd.choice(atoms)
        add("bool", rnd.choice([A("and", a, b), A("or", a, b), A("not", a), A("=>", a, b), A("xor", a, b),
                                A("and", a, b, c), A("or", a, A("not", b), c), A("=", a, b), A("ite", a, b, c)]))
    funs = [t for fam, t in out if fam == "str-fun" and t["f"] in ("str.++", "str.replace", "str.at", "str.substr", "str.from_int")]
    for _ in range(max(10, int(120 * scale))):
        a, b = rnd.choice(funs), rnd.choice(funs)
        add("nested", rnd.choice([A("str.len", a), A("str.++", a, b), A("str.contains", a, b), A("str.to.int", A("str.from_int", A("str.len", a))),
                                  A("str.indexof", a, b, I(0)), A("str.prefixof", b, a)]))
    # re.range with bounds that are special inside a character class of other regex dialects
    specials = ["^", "]", "[", "\\", "-", "a", "z", "A", "!", "~", "0"]
    probes = ["^", "]", "[", "\\", "-", "a", "z", "A", "_", "`", "!", "~", "5", ""]
    for lo, hi in itertools.product(specials, specials):
        for c in some(probes, 5):
            add("re-range-special", A("str.in_re", S(c), A("re.range", S(lo), S(hi))))
    # conjunctions / disjunctions whose children all depend on the same two strings (lifted to two variables, in varying order)
    for a, b in some([(a, b) for a, b in itertools.product(["A", "B", "ab", "b", "", "7"], repeat=2) if a != b], 16):
        add("two-var-nested", A("and", A("str.prefixof", S(a), S(b)), A("=", A("str.++", S(a), S(b)), S(a + b))))
        add("two-var-nested", A("and", A("=", A("str.++", S(b), S(a)), S(b + a)), A("=", A("str.++", S(a), S(b)), S(a + b))))
        add("two-var-nested", A("or", A("str.contains", S(a), S(b)), A("=", A("str.len", A("str.++", S(b), S(a))), I(len(a) + 1))))
        add("two-var-nested", A("and", A("=", A("str.++", S(a), S(b)), S(a + b)), A("str.<=", S(b), A("str.++", S(a), S(b)))))
    # numerals beyond 2^31 / 2^53 (family "bignum": judged against Z3 only, TLC's integers are 32-bit)
    bigs = ["2147483648", "4294967296", "9007199254740992", "9007199254740993", "9007199254740994", "18446744073709551616",
            "99999999999999999999", "100000000000000000000", "123456789012345678", "123456789012345679"]
    for a, b in itertools.product(bigs, bigs):
        for f in ("<", "=", "<="):
            add("bignum", A(f, A("str.to.int", S(a)), A("str.to.int", S(b))))
    for a in bigs:
        add("bignum", A("=", A("+", A("str.to.int", S(a)), I(1)), A("str.to.int", S(str(int(a) + 1)))))
        add("bignum", A("=", A("str.len", A("str.from_int", A("str.to.int", S(a)))), I(len(a))))
    return out
