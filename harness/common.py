"""Shared plumbing of the checks: evidence files, known findings, replay files,
violation reporting, and a pool of worker processes with per-task wall-clock caps."""
import hashlib
import json
import os
import queue
import subprocess
import sys
import threading
import time

VERIF = os.path.dirname(os.path.dirname(os.path.abspath(__file__)))
REPO = os.environ.get("VERIF_REPO", "/repo")
PY = "/venv/bin/python"
NPROC = int(os.environ.get("VERIF_NPROC", "0")) or min(16, os.cpu_count() or 4)


def seed():
    try:
        return int(os.environ.get("VERIF_SEED", "0"))
    except ValueError:
        return 0


def load_known():
    with open(os.path.join(VERIF, "known_findings.json")) as f:
        return json.load(f)["findings"]


def sig_matches(signature, sig):
    """signature (from the committed file) matches a violation's flat `sig` dict when every key
    of the signature is present with an equal value; a list value means 'one of'."""
    for k, v in signature.items():
        if k not in sig:
            return False
        if isinstance(v, list):
            if sig[k] not in v:
                return False
        elif sig[k] != v:
            return False
    return True


class Check:
    def __init__(self, pid, tier, level="model_checking"):
        self.pid = pid
        self.tier = tier
        self.level = level
        self.t0 = time.time()
        self.seed = seed()
        self.cov = {"states": 0, "transitions": 0, "traces_validated_against_impl": 0,
                    "evaluations": 0, "distinct_nontrivial": 0, "unjudged": 0, "samples": [],
                    "rule": "", "known_findings_hit": {}, "tlc_runs": 0}
        self.assumptions = []
        self.violations = []      # (sig, record)
        self.known = [k for k in load_known() if k["property"] == pid and k["status"] == "known"]
        if os.environ.get("VERIF_IGNORE_KNOWN") == "1":      # development aid: show known findings as violations
            self.known = []
        self.known_hits = {}
        self._distinct = set()

    # ---- bookkeeping --------------------------------------------------------------
    def add_tlc(self, res):
        self.cov["states"] += res.distinct
        self.cov["transitions"] += res.generated
        self.cov["tlc_runs"] += 1

    def nontrivial(self, key):
        self._distinct.add(key if isinstance(key, (str, int, tuple)) else json.dumps(key, sort_keys=True))

    def sample(self, s, limit=6):
        if len(self.cov["samples"]) < limit:
            self.cov["samples"].append(s)

    def note(self, key, n=1):
        self.cov[key] = self.cov.get(key, 0) + n

    # ---- verdicts -----------------------------------------------------------------
    def mismatch(self, sig, record):
        """A case on which the implementation's observed behaviour differs from what the
        specification allows.  `sig` is a small flat dict naming the root-cause coordinates."""
        for k in self.known:
            if sig_matches(k["signature"], sig):
                kid = k["id"]
                self.known_hits[kid] = self.known_hits.get(kid, 0) + 1
                return
        self.violations.append((sig, record))

    def finish(self, exhaustive=None):
        self.cov["distinct_nontrivial"] = len(self._distinct) if self._distinct else self.cov["distinct_nontrivial"]
        if exhaustive is not None:
            self.cov["exhaustive"] = exhaustive
        self.cov["known_findings_hit"] = dict(self.known_hits)
        for k in self.known:
            if k["id"] in self.known_hits:
                print("KNOWN-FINDING: property=%s %s [%s, %d case(s)]" % (
                    self.pid, k["what"], k["id"], self.known_hits[k["id"]]))
        # one VIOLATION line per distinct signature, each with its first replay file
        seen = {}
        for sig, rec in self.violations:
            key = json.dumps(sig, sort_keys=True)
            seen.setdefault(key, []).append(rec)
        rdir = os.path.join(VERIF, "replays", self.pid)
        for key, recs in seen.items():
            os.makedirs(rdir, exist_ok=True)
            h = hashlib.sha1(key.encode()).hexdigest()[:12]
            path = os.path.join(rdir, h + ".json")
            with open(path, "w") as f:
                json.dump({"property": self.pid, "sig": json.loads(key), "count": len(recs),
                           "cases": recs[:5]}, f, indent=1)
            print("VIOLATION property=%s replay=%s  (%d case(s), sig=%s)" % (self.pid, path, len(recs), key))
        ev = {"property_id": self.pid, "tier": self.tier, "seed": self.seed, "level": self.level,
              "coverage": self.cov, "assumptions": self.assumptions,
              "wall_s": round(time.time() - self.t0, 2), "violations": len(seen)}
        os.makedirs(os.path.join(VERIF, "evidence"), exist_ok=True)
        with open(os.path.join(VERIF, "evidence", self.pid + os.environ.get("VERIF_EVIDENCE_SUFFIX", "") + ".json"), "w") as f:
            json.dump(ev, f, indent=1, sort_keys=True)
        print("%s %s: %d evaluations, %d states, %d traces validated, %d unjudged, %d violation signature(s), %d known finding(s) hit, %.1fs" % (
            self.pid, self.tier, self.cov["evaluations"], self.cov["states"],
            self.cov["traces_validated_against_impl"], self.cov["unjudged"], len(seen),
            len(self.known_hits), time.time() - self.t0))
        return 1 if seen else 0


# ------------------------------------------------------------------------ worker pool
class _Worker:
    def __init__(self, module, env):
        e = dict(os.environ)
        # the implementation is imported from /repo (the editable install of /venv); VERIF_REPO=<other checkout> is only
        # used by tools/try_seed.py to run a check against a patched scratch copy without touching /repo
        e.update({"PYTHONHASHSEED": "0", "PYTHONPATH": VERIF + ("" if REPO == "/repo" else ":" + os.path.join(REPO, "src")),
                  "RINDPHI_ISLA_VERIF": "1"})
        e.update(env or {})
        opt = ["-O"] if e.get("VERIF_PY_O") == "1" else []      # assertions of the implementation switched off
        self.p = subprocess.Popen([PY, "-u"] + opt + ["-m", "harness.worker", module], cwd=VERIF, env=e,
                                  stdin=subprocess.PIPE, stdout=subprocess.PIPE,
                                  stderr=subprocess.DEVNULL, text=True, bufsize=1)

    def call(self, task, timeout):
        try:
            self.p.stdin.write(json.dumps(task) + "\n")
            self.p.stdin.flush()
        except (BrokenPipeError, OSError):
            self.kill()
            return {"_crashed": True, "_unsent": True}
        box = []

        def rd():
            while True:
                line = self.p.stdout.readline()
                if not line:
                    box.append(None)
                    return
                if line.startswith("@@RESULT "):
                    box.append(line[9:])
                    return
        th = threading.Thread(target=rd, daemon=True)
        th.start()
        th.join(timeout)
        if th.is_alive():
            self.kill()
            return {"_timeout": True}
        if box[0] is None:
            self.kill()
            return {"_crashed": True}
        return json.loads(box[0])

    def kill(self):
        try:
            self.p.kill()
            self.p.wait()
        except Exception:
            pass

    def alive(self):
        return self.p.poll() is None


def pmap(module, tasks, timeout=60, nproc=None, env=None, fresh=False):
    """Run `harness.drivers.<module>.run(task)` for every task in worker processes.
    Returns results in task order; a task exceeding `timeout` seconds yields
    {"_timeout": True} (its worker is killed and replaced)."""
    nproc = min(nproc or NPROC, max(1, len(tasks)))
    q = queue.Queue()
    for i, t in enumerate(tasks):
        q.put((i, t))
    results = [None] * len(tasks)

    def loop():
        w = None
        while True:
            try:
                i, t = q.get_nowait()
            except queue.Empty:
                break
            if w is None or not w.alive():
                w = _Worker(module, env)
            results[i] = w.call(t, timeout)
            if results[i].get("_crashed"):     # the worker had retired itself (or died): ask a fresh one, once
                w = _Worker(module, env)
                results[i] = w.call(t, timeout)
            if fresh:                          # one interpreter per task
                w.kill()
                w = None
        if w is not None:
            try:
                w.p.stdin.close()
            except Exception:
                pass
            w.kill()
    ths = [threading.Thread(target=loop) for _ in range(nproc)]
    for th in ths:
        th.start()
    for th in ths:
        th.join()
    return results


def chunks(xs, n):
    """split xs into n nearly equal consecutive chunks (non-empty ones only)"""
    n = max(1, min(n, len(xs)))
    k, r = divmod(len(xs), n)
    out, i = [], 0
    for j in range(n):
        step = k + (1 if j < r else 0)
        if step:
            out.append(xs[i:i + step])
        i += step
    return out


def tmap(fn, items, nthreads=None):
    """thread-parallel map for functions that mostly wait for subprocesses (TLC JVMs)"""
    nthreads = min(nthreads or NPROC, max(1, len(items)))
    results = [None] * len(items)
    errs = []
    q = queue.Queue()
    for i, it in enumerate(items):
        q.put((i, it))

    def loop():
        while True:
            try:
                i, it = q.get_nowait()
            except queue.Empty:
                return
            try:
                results[i] = fn(it)
            except BaseException as ex:  # noqa
                errs.append(ex)
    ths = [threading.Thread(target=loop) for _ in range(nthreads)]
    for th in ths:
        th.start()
    for th in ths:
        th.join()
    if errs:
        raise errs[0]
    return results
