"""Projection functions between implementation values and the specification's wire format
(DESIGN.md appendix B).  They transport data; they contain no verdict logic."""
import re

RE_NT = re.compile(r"(<[^<> ]*>)")


def cps(s):
    return [ord(c) for c in s]


def text(cs):
    return "".join(chr(c) for c in cs)


def is_nt(s):
    return bool(RE_NT.fullmatch(s))


# ---------------------------------------------------------------- grammars
def grammar_to_json(grammar):
    """ISLa grammar dict (nonterminal -> list of expansion strings) -> wire format."""
    out = {}
    for nt, alts in grammar.items():
        jalts = []
        for alt in alts:
            syms = []
            for tok in RE_NT.split(alt):
                if not tok:
                    continue
                if RE_NT.fullmatch(tok):
                    syms.append({"nt": True, "n": tok, "c": []})
                else:
                    syms.append({"nt": False, "n": "", "c": cps(tok)})
            jalts.append(syms)
        out[nt] = jalts
    return out


def json_to_grammar(jg):
    g = {}
    for nt, jalts in jg.items():
        g[nt] = ["".join(s["n"] if s["nt"] else text(s["c"]) for s in alt) for alt in jalts]
    return g


# ------------------------------------------------------------------- trees
def tree_to_json(t):
    """DerivationTree -> wire format (iterative; trees can be deep)."""
    root = {}
    stack = [(t, root)]
    while stack:
        node, j = stack.pop()
        val = node.value
        ch = node.children
        # A node is a nonterminal node iff its value has nonterminal shape.  A terminal node
        # has children == () in the implementation.
        if is_nt(val):
            j.update({"n": val, "nt": True, "open": ch is None, "c": [], "id": node.id})
        else:
            j.update({"n": "", "nt": False, "open": ch is None, "c": cps(val), "id": node.id})
        kids = []
        for c in (ch or ()):
            cj = {}
            kids.append(cj)
            stack.append((c, cj))
        j["ch"] = kids
    return root


def json_to_tree(j, DerivationTree, fresh_ids=False, eps_fuzzer_shape=False):
    """wire format -> DerivationTree.  With fresh_ids the ids in j are ignored."""
    def build(j):
        if j["nt"]:
            if j["open"]:
                ch = None
            else:
                ch = [build(c) for c in j["ch"]]
                if not ch and eps_fuzzer_shape:
                    ch = [DerivationTree("", ())]
            val = j["n"]
        else:
            ch = ()
            val = text(j["c"])
        if fresh_ids or j.get("id") is None:
            return DerivationTree(val, ch)
        return DerivationTree(val, ch, id=j["id"])
    return build(j)


def renumber(j, start=0):
    """assign pre-order ids to a wire-format tree (in place); returns next free id."""
    k = start
    stack = [j]
    while stack:
        n = stack.pop()
        n["id"] = k
        k += 1
        stack.extend(reversed(n["ch"]))
    return k


def size(j):
    return 1 + sum(size(c) for c in j["ch"])


def jyield(j):
    if not j["nt"]:
        return text(j["c"])
    return "".join(jyield(c) for c in j["ch"])


def sub(j, path):
    """path: 1-based sequence as in the specification"""
    for i in path:
        j = j["ch"][i - 1]
    return j


def paths(j, prefix=()):
    yield prefix
    for i, c in enumerate(j["ch"]):
        yield from paths(c, prefix + (i + 1,))


def to0(path):
    return tuple(i - 1 for i in path)


def to1(path):
    return [i + 1 for i in path]


def grammar_of_tree(j):
    """grammar synthesised from the productions used in a tree (for predicate checks)"""
    g = {}

    def walk(n):
        if not n["nt"]:
            return
        if n["open"]:
            g.setdefault(n["n"], [])
            return
        alt = "".join(c["n"] if c["nt"] else text(c["c"]) for c in n["ch"])
        alts = g.setdefault(n["n"], [])
        if alt not in alts:
            alts.append(alt)
        for c in n["ch"]:
            walk(c)
    walk(j)
    return g


# ---------------------------------------------------------------- formulas
class Unprojectable(Exception):
    """an object outside the wire format (the case becomes UNJUDGED, never OK)"""


def _decode_z3_string(s):
    import re as _re
    return _re.sub(r"\\u\{([0-9a-fA-F]+)\}", lambda m: chr(int(m.group(1), 16)), s)


def z3_to_term(e):
    import z3
    if z3.is_string_value(e):
        return {"k": "str", "s": cps(_decode_z3_string(e.as_string()))}
    if z3.is_int_value(e):
        v = e.as_long()
        if abs(v) >= 2 ** 31 - 1:
            raise Unprojectable("integer out of range")
        return {"k": "int", "i": v}
    if z3.is_true(e):
        return {"k": "bool", "b": True}
    if z3.is_false(e):
        return {"k": "bool", "b": False}
    if z3.is_const(e) and e.decl().kind() == z3.Z3_OP_UNINTERPRETED:
        return {"k": "var", "v": str(e)}
    if not z3.is_app(e):
        raise Unprojectable("not an application: %s" % e)
    name = e.decl().name()
    if name == "to_real":
        return z3_to_term(e.arg(0))
    name = {"if": "ite", "str.to_int": "str.to.int", "int.to.str": "str.from_int", "str.to.int": "str.to.int"}.get(name, name)
    known = {"=", "distinct", "ite", "and", "or", "not", "=>", "xor", "+", "-", "*", "div", "mod", "abs", "^", "<", "<=", ">", ">=",
             "str.len", "str.++", "str.at", "str.substr", "str.prefixof", "str.suffixof", "str.contains", "str.indexof", "str.replace",
             "str.replace_all", "str.<", "str.<=", "str.is_digit", "str.to_code", "str.from_code", "str.to.int", "str.from_int",
             "str.in_re", "str.to_re", "re.none", "re.all", "re.allchar", "re.++", "re.union", "re.inter", "re.*", "re.+", "re.opt",
             "re.range", "re.comp", "re.diff", "re.loop", "re.^"}
    if name not in known:
        raise Unprojectable("unknown operator %s" % name)
    p = []
    if name in ("re.loop", "re.^"):
        p = list(e.params())
        if name == "re.loop" and len(p) == 1:
            p = [p[0], -1]
    return {"k": "app", "f": name, "args": [z3_to_term(c) for c in e.children()], "p": p}


def _bind_atoms(elems):
    from isla.language import DummyVariable
    out = []
    for el in elems:
        if isinstance(el, list):
            out.append({"k": "opt", "atoms": _bind_atoms(el)})
        elif isinstance(el, DummyVariable):
            if el.is_nonterminal:
                out.append({"k": "nt", "n": el.n_type, "v": ""})
            else:
                out.extend({"k": "ch", "c": ord(c)} for c in el.n_type)
        else:
            out.append({"k": "nt", "n": el.n_type, "v": el.name})
    return out


def formula_to_json(f, tree_names=None):
    """isla.language.Formula -> wire format.  Tree arguments (instantiated constants) are
    mapped to variable names through tree_names: id -> name (the reference tree is 'start')."""
    from isla import language as L
    from isla.derivation_tree import DerivationTree
    tree_names = tree_names or {}

    def ref(x):
        if isinstance(x, DerivationTree):
            if x.id in tree_names:
                return tree_names[x.id]
            raise Unprojectable("tree argument without a name")
        if isinstance(x, L.Constant) and not x.is_numeric():
            return "start"      # the top-level constant, whatever the specification calls it
        return x.name

    def walk(g):
        if isinstance(g, L.ForallFormula) or isinstance(g, L.ExistsFormula):
            return {"op": "forall" if isinstance(g, L.ForallFormula) else "exists", "v": g.bound_variable.name,
                    "ty": g.bound_variable.n_type, "in": ref(g.in_variable),
                    "mexpr": _bind_atoms(g.bind_expression.bound_elements) if g.bind_expression is not None else [],
                    "body": walk(g.inner_formula)}
        if isinstance(g, L.ForallIntFormula) or isinstance(g, L.ExistsIntFormula):
            return {"op": "forallint" if isinstance(g, L.ForallIntFormula) else "existsint", "v": g.bound_variable.name,
                    "nb": 0, "body": walk(g.inner_formula)}
        if isinstance(g, L.ConjunctiveFormula):
            return {"op": "and", "args": [walk(a) for a in g.args]}
        if isinstance(g, L.DisjunctiveFormula):
            return {"op": "or", "args": [walk(a) for a in g.args]}
        if isinstance(g, L.NegatedFormula):
            return {"op": "not", "arg": walk(g.args[0])}
        if isinstance(g, L.StructuralPredicateFormula):
            args = []
            for a in g.args:
                if isinstance(a, str):
                    args.append({"k": "int", "i": int(a)} if a.lstrip("-").isdigit() else {"k": "str", "s": a})
                elif isinstance(a, int):
                    args.append({"k": "int", "i": a})
                else:
                    args.append({"k": "var", "v": ref(a)})
            return {"op": "pred", "name": g.predicate.name, "args": args}
        if isinstance(g, L.SemanticPredicateFormula):
            if g.predicate.name != "count":
                raise Unprojectable("semantic predicate %s" % g.predicate.name)
            a = g.args
            num = a[2]
            if isinstance(num, DerivationTree):
                num = num.value if not num.children else str(num)
            n = {"k": "int", "i": int(num)} if isinstance(num, str) else {"k": "var", "v": ref(num)}
            return {"op": "count", "args": [{"k": "var", "v": ref(a[0])}, {"k": "str", "s": a[1]}, n]}
        if isinstance(g, L.SMTFormula):
            import z3
            if z3.is_true(g.formula):
                return {"op": "true"}
            if z3.is_false(g.formula):
                return {"op": "false"}
            term = z3_to_term(g.formula)
            # variables already instantiated by (possibly open) trees
            sub = {v.name: ref(t) for v, t in g.substitutions.items()}
            sub.update({v.name: "start" for v in g.free_variables() if isinstance(v, L.Constant) and not v.is_numeric()})

            def rename(t):
                if t["k"] == "var" and t["v"] in sub:
                    return {"k": "var", "v": sub[t["v"]]}
                if t["k"] == "app":
                    return dict(t, args=[rename(x) for x in t["args"]])
                return t
            return {"op": "smt", "term": rename(term)}
        raise Unprojectable("formula class %s" % type(g).__name__)
    return walk(f)
