"""Projection functions between implementation values and the specification's wire format
(DESIGN.md appendix B).  They transport data; they contain no verdict logic."""
import re

RE_NT = re.compile(r"(<[^<> ]*>)")


def cps(s):
    return [ord(c) for c in s]


def text(cs):
    return "".join(chr(c) for c in cs)


def is_nt(s):
    return bool(RE_NT.fullmatch(s))


# ---------------------------------------------------------------- grammars
def grammar_to_json(grammar):
    """ISLa grammar dict (nonterminal -> list of expansion strings) -> wire format."""
    out = {}
    for nt, alts in grammar.items():
        jalts = []
        for alt in alts:
            syms = []
            for tok in RE_NT.split(alt):
                if not tok:
                    continue
                if RE_NT.fullmatch(tok):
                    syms.append({"nt": True, "n": tok, "c": []})
                else:
                    syms.append({"nt": False, "n": "", "c": cps(tok)})
            jalts.append(syms)
        out[nt] = jalts
    return out


def json_to_grammar(jg):
    g = {}
    for nt, jalts in jg.items():
        g[nt] = ["".join(s["n"] if s["nt"] else text(s["c"]) for s in alt) for alt in jalts]
    return g


# ------------------------------------------------------------------- trees
def tree_to_json(t):
    """DerivationTree -> wire format (iterative; trees can be deep)."""
    root = {}
    stack = [(t, root)]
    while stack:
        node, j = stack.pop()
        val = node.value
        ch = node.children
        # A node is a nonterminal node iff its value has nonterminal shape.  A terminal node
        # has children == () in the implementation.
        if is_nt(val):
            j.update({"n": val, "nt": True, "open": ch is None, "c": [], "id": node.id})
        else:
            j.update({"n": "", "nt": False, "open": ch is None, "c": cps(val), "id": node.id})
        kids = []
        for c in (ch or ()):
            cj = {}
            kids.append(cj)
            stack.append((c, cj))
        j["ch"] = kids
    return root


def json_to_tree(j, DerivationTree, fresh_ids=False, eps_fuzzer_shape=False):
    """wire format -> DerivationTree.  With fresh_ids the ids in j are ignored."""
    def build(j):
        if j["nt"]:
            if j["open"]:
                ch = None
            else:
                ch = [build(c) for c in j["ch"]]
                if not ch and eps_fuzzer_shape:
                    ch = [DerivationTree("", ())]
            val = j["n"]
        else:
            ch = ()
            val = text(j["c"])
        if fresh_ids or j.get("id") is None:
            return DerivationTree(val, ch)
        return DerivationTree(val, ch, id=j["id"])
    return build(j)


def renumber(j, start=0):
    """assign pre-order ids to a wire-format tree (in place); returns next free id."""
    k = start
    stack = [j]
    while stack:
        n = stack.pop()
        n["id"] = k
        k += 1
        stack.extend(reversed(n["ch"]))
    return k


def size(j):
    return 1 + sum(size(c) for c in j["ch"])


def jyield(j):
    if not j["nt"]:
        return text(j["c"])
    return "".join(jyield(c) for c in j["ch"])


def sub(j, path):
    """path: 1-based sequence as in the specification"""
    for i in path:
        j = j["ch"][i - 1]
    return j


def paths(j, prefix=()):
    yield prefix
    for i, c in enumerate(j["ch"]):
        yield from paths(c, prefix + (i + 1,))


def to0(path):
    return tuple(i - 1 for i in path)


def to1(path):
    return [i + 1 for i in path]


def grammar_of_tree(j):
    """grammar synthesised from the productions used in a tree (for predicate checks)"""
    g = {}

    def walk(n):
        if not n["nt"]:
            return
        if n["open"]:
            g.setdefault(n["n"], [])
            return
        alt = "".join(c["n"] if c["nt"] else text(c["c"]) for c in n["ch"])
        alts = g.setdefault(n["n"], [])
        if alt not in alts:
            alts.append(alt)
        for c in n["ch"]:
            walk(c)
    walk(j)
    return g
