"""C13 driver: calls isla.existential_helpers.insert_tree(canonical_grammar, tree, in_tree,
graph=..., methods=mask) for (host, tree-to-insert) pairs and every method mask and records all
results (projected with their node ids)."""
import signal

from grammar_graph import gg
from isla.derivation_tree import DerivationTree
from isla.existential_helpers import insert_tree
from isla.helpers import canonical

from harness import project as pj


class StepTimeout(BaseException):
    """wall-clock cap of one call: the call is unjudged"""


EXIT_AFTER = False


def capped(seconds, fn):
    def handler(signum, frame):
        global EXIT_AFTER
        EXIT_AFTER = True      # objects in flight when the timer fired may be half-updated: fresh process for the next task
        raise StepTimeout()
    old = signal.signal(signal.SIGALRM, handler)
    signal.setitimer(signal.ITIMER_REAL, seconds)
    try:
        return fn()
    finally:
        signal.setitimer(signal.ITIMER_REAL, 0)
        signal.signal(signal.SIGALRM, old)


_cache = {}


def run(task):
    # trees of the model carry explicit ids; ids the implementation creates itself must not clash
    DerivationTree.next_id = max(DerivationTree.next_id, 1000000)
    g = pj.json_to_grammar(task["g"])
    key = repr(sorted(g.items()))
    if key not in _cache:
        _cache.clear()
        _cache[key] = (canonical(g), gg.GrammarGraph.from_grammar(g))
    cg, graph = _cache[key]
    out = []
    for pair in task["pairs"]:
        calls = []
        for mask in pair.get("masks", task["masks"]):
            host = pj.json_to_tree(pair["host"], DerivationTree)
            ins = pj.json_to_tree(pair["ins"], DerivationTree)
            rec = {"mask": mask, "res": "ok", "exc": "", "results": []}
            try:
                kw = {} if task.get("max_num_solutions", 50) == 50 else {"max_num_solutions": task["max_num_solutions"]}
                results = capped(task["cap"], lambda: insert_tree(cg, ins, host, graph=graph, methods=mask, **kw))
                rec["results"] = [pj.tree_to_json(t) for t in results]
            except StepTimeout:
                rec["res"] = "timeout"
            except BaseException as ex:
                if isinstance(ex, (KeyboardInterrupt, SystemExit)):
                    raise
                rec["res"] = "exc"
                rec["exc"] = "%s: %s" % (type(ex).__name__, str(ex)[:160])
            calls.append(rec)
        out.append({"pid": pair["pid"], "calls": calls})
    return {"pairs": out}
