"""C11 driver: prints a grammar with isla.language.unparse_grammar, parses the text with
isla.language.parse_bnf and records the projected result (or the exception)."""
from isla.language import parse_bnf, unparse_grammar

from harness import project as pj


def exc_text(ex):
    return "%s: %s" % (type(ex).__name__, str(ex)[:200])


def run(task):
    out = []
    for case in task["cases"]:
        rec = {"idx": case["idx"], "g": case["g"], "L": case["L"], "family": case["family"],
               "res": "ok", "exc": "", "stage": "", "bnf": "", "g2": case["g"], "history": case.get("history") or ""}
        g = pj.json_to_grammar(case["g"])
        # transport sanity: the implementation's grammar value projects back to the case
        rec["proj_ok"] = pj.grammar_to_json(g) == case["g"]
        try:
            if case.get("history"):
                # an earlier round trip of the same grammar in this interpreter, whose result is then used the way
                # callers use it (changed in place / handed to a solver with another start symbol)
                try:
                    text0 = unparse_grammar(g)
                    g0 = parse_bnf(text0)
                    if case["history"] == "mutate":
                        g0.setdefault("<start>", []).append("<zz-added>")
                        g0["<zz-added>"] = ["zz"]
                    else:
                        from isla.solver import ISLaSolver
                        other = [n for n in g if n != "<start>"]
                        ISLaSolver(text0, start_symbol=other[-1])
                except Exception:
                    pass          # the recorded round trip below is what is judged
            rec["stage"] = "unparse_grammar"
            text = unparse_grammar(g)
            rec["bnf"] = text
            rec["stage"] = "parse_bnf"
            g2 = parse_bnf(text)
            rec["stage"] = "project"
            if not isinstance(g2, dict) or not all(isinstance(k, str) and isinstance(v, list) and all(isinstance(a, str) for a in v)
                                                   for k, v in g2.items()):
                raise TypeError("parse_bnf returned %r" % (g2,))
            rec["g2"] = pj.grammar_to_json(g2)
            rec["stage"] = ""
        except BaseException as ex:
            if isinstance(ex, (KeyboardInterrupt, SystemExit)):
                raise
            rec["res"] = "exc"
            rec["exc"] = exc_text(ex)
        out.append(rec)
    return {"cases": out}
