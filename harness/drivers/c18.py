"""C18 driver: one ISLaSolver per case; records the outcome of check(str), check(tree), parse(str),
repair(tree), mutate(tree) on the given inputs."""
import random
import signal

from isla.derivation_tree import DerivationTree
from isla.solver import ISLaSolver, SemanticError, UnknownResultError
from returns.maybe import Some

from harness import project as pj


class Alarm(Exception):
    pass


def _alarm(*_):
    raise Alarm()


def timed(fn, seconds):
    signal.signal(signal.SIGALRM, _alarm)
    signal.alarm(seconds)
    try:
        return fn()
    finally:
        signal.alarm(0)


# An alarm delivered while Z3 is running can leave the interpreter's Z3 state unusable (later
# calls raise ctypes.ArgumentError): after the first alarm the remaining calls of the session
# are not made (reported as "timeout", unjudged) and the worker process is replaced.
EXIT_AFTER = False


def exc(ex):
    return "X:%s: %s" % (type(ex).__name__, str(ex)[:120])


def run(task):
    global EXIT_AFTER
    random.seed(task.get("seed", 0))
    g = pj.json_to_grammar(task["g"])
    DerivationTree.next_id = 100000
    solver = ISLaSolver(g, task["text"])
    trees = [pj.json_to_tree(t, DerivationTree) for t in task["trees"]]
    rows = []
    for k in task["check_trees"]:
        r = {"op": "CheckTree", "t": k + 1, "s": [], "tree": {}, "res": ""}
        try:
            r["res"] = "T" if solver.check(trees[k]) else "F"
        except UnknownResultError:
            r["res"] = "unknown"
        except BaseException as ex:
            if isinstance(ex, (KeyboardInterrupt, SystemExit)):
                raise
            if type(ex).__name__ == "ArgumentError" and "Alarm" in str(ex):
                # the wall-clock alarm fired inside a ctypes argument conversion of z3: ctypes re-raises it as ArgumentError
                r["res"] = "timeout"
                EXIT_AFTER = True
            else:
                r["res"] = exc(ex)
        rows.append(r)
    for s in task["strings"]:
        r = {"op": "CheckStr", "t": 0, "s": pj.cps(s), "tree": {}, "res": ""}
        try:
            r["res"] = "T" if solver.check(s) else "F"
        except BaseException as ex:
            if isinstance(ex, (KeyboardInterrupt, SystemExit)):
                raise
            if type(ex).__name__ == "ArgumentError" and "Alarm" in str(ex):
                # the wall-clock alarm fired inside a ctypes argument conversion of z3: ctypes re-raises it as ArgumentError
                r["res"] = "timeout"
                EXIT_AFTER = True
            else:
                r["res"] = exc(ex)
        rows.append(r)
        r = {"op": "ParseStr", "t": 0, "s": pj.cps(s), "tree": {}, "res": ""}
        try:
            t = solver.parse(s, silent=True)
            r["res"] = "tree"
            r["tree"] = pj.tree_to_json(t)
        except SyntaxError:
            r["res"] = "SyntaxError"
        except SemanticError:
            r["res"] = "SemanticError"
        except BaseException as ex:
            if isinstance(ex, (KeyboardInterrupt, SystemExit)):
                raise
            if type(ex).__name__ == "ArgumentError" and "Alarm" in str(ex):
                # the wall-clock alarm fired inside a ctypes argument conversion of z3: ctypes re-raises it as ArgumentError
                r["res"] = "timeout"
                EXIT_AFTER = True
            else:
                r["res"] = exc(ex)
        rows.append(r)
    for k in task["repair_trees"]:
        r = {"op": "Repair", "t": k + 1, "s": [], "tree": {}, "res": ""}
        if EXIT_AFTER:
            r["res"] = "timeout"
            rows.append(r)
            continue
        try:
            res = timed(lambda: solver.repair(trees[k], fix_timeout_seconds=task.get("fix_timeout", 2)), task.get("op_cap", 25))
            if isinstance(res, Some):
                r["res"] = "some"
                r["tree"] = pj.tree_to_json(res.unwrap())
            else:
                r["res"] = "nothing"
        except Alarm:
            r["res"] = "timeout"
            EXIT_AFTER = True
        except BaseException as ex:
            if isinstance(ex, (KeyboardInterrupt, SystemExit)):
                raise
            if type(ex).__name__ == "ArgumentError" and "Alarm" in str(ex):
                # the wall-clock alarm fired inside a ctypes argument conversion of z3: ctypes re-raises it as ArgumentError
                r["res"] = "timeout"
                EXIT_AFTER = True
            else:
                r["res"] = exc(ex)
        rows.append(r)
    for k in task["mutate_trees"]:
        r = {"op": "Mutate", "t": k + 1, "s": [], "tree": {}, "res": ""}
        if EXIT_AFTER:
            r["res"] = "timeout"
            rows.append(r)
            continue
        try:
            res = timed(lambda: solver.mutate(trees[k], min_mutations=task.get("min_mut", 1), max_mutations=task.get("max_mut", 3), fix_timeout_seconds=1),
                        task.get("op_cap", 25))
            r["res"] = "tree"
            r["tree"] = pj.tree_to_json(res)
        except Alarm:
            r["res"] = "timeout"
            EXIT_AFTER = True
        except BaseException as ex:
            if isinstance(ex, (KeyboardInterrupt, SystemExit)):
                raise
            if type(ex).__name__ == "ArgumentError" and "Alarm" in str(ex):
                # the wall-clock alarm fired inside a ctypes argument conversion of z3: ctypes re-raises it as ArgumentError
                r["res"] = "timeout"
                EXIT_AFTER = True
            else:
                r["res"] = exc(ex)
        rows.append(r)
    return {"rows": rows}
