"""C04 driver: evaluates every built-in structural predicate on every ordered pair of nodes
of each given tree, through isla.evaluator.evaluate().  Records values only."""
import grammar_graph.gg as gg
from isla.derivation_tree import DerivationTree
from isla.evaluator import evaluate
from isla.isla_predicates import (AFTER_PREDICATE, BEFORE_PREDICATE, CONSECUTIVE_PREDICATE,
                                  DIFFERENT_POSITION_PREDICATE, DIRECT_CHILD_PREDICATE,
                                  IN_TREE_PREDICATE, LEVEL_PREDICATE, NTH_PREDICATE,
                                  SAME_POSITION_PREDICATE)
from isla.language import StructuralPredicateFormula

from harness import project as pj

PRED = {"before": BEFORE_PREDICATE, "after": AFTER_PREDICATE, "inside": IN_TREE_PREDICATE,
        "direct_child": DIRECT_CHILD_PREDICATE, "same_position": SAME_POSITION_PREDICATE,
        "different_position": DIFFERENT_POSITION_PREDICATE, "consecutive": CONSECUTIVE_PREDICATE,
        "nth": NTH_PREDICATE, "level": LEVEL_PREDICATE}


def run(task):
    preds = task["preds"]
    out = []
    for entry in task["trees"]:
        jt = entry["t"]
        tree = pj.json_to_tree(jt, DerivationTree)
        grammar = pj.grammar_of_tree(jt)
        grammar.setdefault("<start>", [""])
        graph = gg.GrammarGraph.from_grammar(grammar)
        ps = list(pj.paths(jt))
        subs = {p: tree.get_subtree(pj.to0(p)) for p in ps}
        rows = []
        for p in ps:
            for q in ps:
                vals = []
                for pr in preds:
                    try:
                        f = StructuralPredicateFormula(PRED[pr["name"]], *[str(x) for x in pr["extra"]],
                                                       subs[p], subs[q])
                        r = evaluate(f, tree, grammar, graph=graph)
                        vals.append(1 if r.is_true() else 0 if r.is_false() else 2)
                    except BaseException as ex:  # recorded as an observation
                        if isinstance(ex, (KeyboardInterrupt, SystemExit)):
                            raise
                        vals.append(2)
                rows.append({"p": list(p), "q": list(q), "v": vals})
        out.append({"idx": entry["idx"], "t": jt, "rows": rows})
    return {"trees": out}
