"""C21 driver: builds an ISLaSolver for one shipped formalization (grammar + shipped constraints, solver
settings as in tests/test_solver.py or a cost-setting variant), draws solutions under a wall-clock cap and
appends every output to a JSON-lines file as soon as it exists (so a later hang loses nothing).
For reST it also records which section titles / link targets / references / enumerations the derivation
tree says were emitted (read off by node label).  No validity verdict is computed here."""
import functools
import json
import random
import time

from grammar_graph import gg
from isla.fuzzer import GrammarFuzzer
from isla.isla_predicates import COUNT_PREDICATE
from isla.solver import ISLaSolver, GrammarBasedBlackboxCostComputer, CostSettings, CostWeightVector, STD_COST_SETTINGS

from harness import project as pj

EXIT_AFTER = True      # one solver per worker process: module-level state of isla (fresh-name counters) starts clean

# weight vectors: tree closing, constraint, derivation depth, low k-coverage, low global k-path coverage
ALT_VECTORS = {
    "std": None,
    "xml-test": ((9.5, 0, 6, 0, 13), 4),
    "xml-test-plain": ((16, 7, 13, 26, 20), 3),
    "rest-test": ((7, 1.5, 2.5, 2, 18), 4),
    "scriptsize-test": ((5.5, 2, 6, 2, 21), 3),
    "tar-test": ((12, 1, 2, 0, 0), 4),
}


def cost_computer(name, grammar, **kw):
    if ALT_VECTORS[name] is None:
        return GrammarBasedBlackboxCostComputer(STD_COST_SETTINGS, gg.GrammarGraph.from_grammar(grammar), **kw)
    vec, k = ALT_VECTORS[name]
    return GrammarBasedBlackboxCostComputer(CostSettings(CostWeightVector(*vec), k=k), gg.GrammarGraph.from_grammar(grammar), **kw)


def build(fmt, cost, cap):
    """the shipped grammar + shipped constraints; settings of the corresponding test in tests/test_solver.py,
    `cost` selects the cost settings ("test" = the test's own)"""
    if fmt == "csv":
        from isla_formalizations import csv as m
        free = 1
        if cost.endswith("-free10"):      # the setting of the project's CSV evaluation script: several instantiations per state
            cost, free = cost[:-len("-free10")], 10
        kw = dict(semantic_predicates={COUNT_PREDICATE}, max_number_free_instantiations=free, max_number_smt_instantiations=2,
                  enforce_unique_trees_in_queue=False, global_fuzzer=False,
                  fuzzer_factory=functools.partial(GrammarFuzzer, min_nonterminals=0, max_nonterminals=30))
        if cost != "test":
            kw["cost_computer"] = cost_computer(cost, m.CSV_GRAMMAR)
        return ISLaSolver(m.CSV_GRAMMAR, m.CSV_COLNO_PROPERTY, timeout_seconds=cap, **kw)
    if fmt == "xml":
        from isla_formalizations import xml_lang as m
        g = m.XML_GRAMMAR_WITH_NAMESPACE_PREFIXES
        return ISLaSolver(g, m.XML_NAMESPACE_CONSTRAINT & m.XML_WELLFORMEDNESS_CONSTRAINT & m.XML_NO_ATTR_REDEF_CONSTRAINT,
                          max_number_free_instantiations=1, enforce_unique_trees_in_queue=True, timeout_seconds=cap,
                          cost_computer=cost_computer("xml-test" if cost == "test" else cost, g))
    if fmt == "rest":
        from isla_formalizations import rest as m
        g = m.REST_GRAMMAR
        return ISLaSolver(g, m.LENGTH_UNDERLINE & m.DEF_LINK_TARGETS & m.NO_LINK_TARGET_REDEF & m.LIST_NUMBERING_CONSECUTIVE,
                          max_number_free_instantiations=1, max_number_smt_instantiations=1, enforce_unique_trees_in_queue=True,
                          timeout_seconds=cap,
                          cost_computer=cost_computer("rest-test" if cost == "test" else cost, g,
                                                      reset_coverage_after_n_round_with_no_coverage=500))
    if fmt == "tar":
        from isla_formalizations import simple_tar as m
        kw = dict(max_number_free_instantiations=1, max_number_smt_instantiations=1, enforce_unique_trees_in_queue=False)
        if cost != "test":
            kw["cost_computer"] = cost_computer(cost, m.SIMPLE_TAR_GRAMMAR)
        return ISLaSolver(m.SIMPLE_TAR_GRAMMAR, m.TAR_CONSTRAINTS, timeout_seconds=cap, **kw)
    raise KeyError(fmt)


def rest_struct(tree):
    def nodes(label):
        return [n for _, n in tree.filter(lambda n: n.value == label)]
    titles = []
    for n in nodes("<section-title>"):
        tt = [c for c in n.children if c.value == "<title-text>"]
        ul = [c for c in n.children if c.value == "<underline>"]
        titles.append([pj.cps(str(tt[0])), pj.cps(str(ul[0]))])
    labels = [pj.cps(str([c for c in n.children if c.value == "<id>"][0])) for n in nodes("<label>")]
    refs = [pj.cps(str([c for c in n.children if c.value == "<id>"][0]))
            for lab in ("<internal_reference>", "<internal_reference_nospace>") for n in nodes(lab)]
    enums = []
    for n in nodes("<enumeration>"):
        items = [x for _, x in n.filter(lambda x: x.value == "<enumeration_item>")]
        enums.append([pj.cps(str([c for c in it.children if c.value == "<number>"][0])) for it in items])
    return {"titles": titles, "labels": labels, "refs": refs, "enums": enums}


EMPTY_STRUCT = {"titles": [], "labels": [], "refs": [], "enums": []}


def run(task):
    fmt, cost, seed, n, cap = task["fmt"], task["cost"], task["seed"], task["n"], task["cap"]
    random.seed(seed)
    t0 = time.time()
    solver = build(fmt, cost, cap)
    produced, end = 0, "count"
    with open(task["out_path"], "a") as f:
        while produced < n:
            if time.time() - t0 > cap:
                end = "cap"
                break
            try:
                tree = solver.solve()
            except StopIteration:
                end = "exhausted"
                break
            except TimeoutError:
                end = "cap"
                break
            except BaseException as ex:  # recorded, not judged: C21 is about the outputs
                if isinstance(ex, (KeyboardInterrupt, SystemExit)):
                    raise
                end = "exception:%s" % type(ex).__name__
                break
            text = str(tree)
            rec = {"fmt": fmt, "cost": cost, "seed": seed, "k": produced, "text": pj.cps(text),
                   "struct": rest_struct(tree) if fmt == "rest" else EMPTY_STRUCT, "t": round(time.time() - t0, 2)}
            f.write(json.dumps(rec) + "\n")
            f.flush()
            produced += 1
    return {"produced": produced, "end": end, "wall": round(time.time() - t0, 2)}
