"""C09 driver: applies negation, NNF, DNF, bound-variable renaming and the and/or combinators to
formula objects and projects the results; records exceptions."""
from isla import language as L
from isla.isla_predicates import STANDARD_SEMANTIC_PREDICATES, STANDARD_STRUCTURAL_PREDICATES

from harness import project as pj
from harness import formulas as F


def exc(ex):
    return "%s: %s" % (type(ex).__name__, str(ex)[:160])


def parse(text, g):
    return L.parse_isla(text, g, STANDARD_STRUCTURAL_PREDICATES, STANDARD_SEMANTIC_PREDICATES)


def run(task):
    g = pj.json_to_grammar(task["g"])
    items = []
    for job in task["jobs"]:
        base = {"id": job["id"], "kind": job["kind"], "rw": job["rw"], "f": job["f"], "h": job.get("h", {"op": "true"}),
                "r": {"op": "true"}, "exc": ""}
        try:
            f = parse(job["ftext"], g)
            h = parse(job["htext"], g) if "htext" in job else None
            rw = job["rw"]
            if rw == "neg":
                r = -f
            elif rw == "nnf":
                r = L.convert_to_nnf(f)
            elif rw == "nnf-neg":
                r = L.convert_to_nnf(f, negate=True)
            elif rw == "dnf":
                r = L.convert_to_dnf(L.convert_to_nnf(f))
            elif rw == "dnf-neg":
                r = L.convert_to_dnf(L.convert_to_nnf(-f))
            elif rw == "unique":
                r = L.ensure_unique_bound_variables(f)
            elif rw == "unique-and":
                r = L.ensure_unique_bound_variables(f & h)
            elif rw == "and":
                r = f & h
            elif rw == "or":
                r = f | h
            elif rw in ("nary-and-dnf", "nary-or-nnf", "nary-and-neg", "nary-or-dnf", "nary-and3-dnf", "nary-and3-dnf-direct"):
                k = parse(job["ktext"], g)
                if rw == "nary-and-dnf":
                    r = L.convert_to_dnf(L.convert_to_nnf(L.ConjunctiveFormula(f, h, k)))
                elif rw == "nary-or-nnf":
                    r = L.convert_to_nnf(L.DisjunctiveFormula(f, h, k), negate=True)
                elif rw == "nary-and3-dnf":
                    r = L.convert_to_dnf(L.convert_to_nnf(L.ConjunctiveFormula(L.DisjunctiveFormula(f, h), k, f)))
                elif rw == "nary-and3-dnf-direct":
                    nf, nh, nk = L.convert_to_nnf(f), L.convert_to_nnf(h), L.convert_to_nnf(k)
                    r = L.convert_to_dnf(L.ConjunctiveFormula(L.DisjunctiveFormula(nf, nh), nk, nf))
                elif rw == "nary-or-dnf":
                    r = L.convert_to_dnf(L.convert_to_nnf(L.ConjunctiveFormula(L.DisjunctiveFormula(f, h, k), k)))
                else:
                    r = -L.ConjunctiveFormula(f, h, k)
            else:
                raise ValueError(rw)
            rj = pj.formula_to_json(r)
            F.set_num_bounds_from(rj, job["nb"])
            base["r"] = rj
        except pj.Unprojectable as ex:
            base["exc"] = ""
            base["skip"] = str(ex)
        except BaseException as ex:
            if isinstance(ex, (KeyboardInterrupt, SystemExit)):
                raise
            base["exc"] = exc(ex)
        items.append(base)
    return {"items": items}
