"""C14 driver: runs the helpers that build trees to a target and records their results:
  fixedlen : isla.solver.create_fixed_length_tree(start, canonical_grammar, target_length)
  count    : COUNT_PREDICATE.evaluate(graph, open_tree, needle, num) -- only the answer kind and, when the
             predicate proposes a completion {in_tree: tree}, that tree
  numeric  : ISLaSolver.extract_model_value_int_var for an integer variable of a nonterminal and a Z3
             model value."""
import random
import signal

from grammar_graph import gg
from isla.derivation_tree import DerivationTree
from isla.helpers import canonical
from isla.isla_predicates import COUNT_PREDICATE

from harness import project as pj


class StepTimeout(BaseException):
    """wall-clock cap of one call: the call is unjudged"""


EXIT_AFTER = False


def capped(seconds, fn):
    def handler(signum, frame):
        global EXIT_AFTER
        EXIT_AFTER = True      # objects in flight when the timer fired may be half-updated: fresh process for the next task
        raise StepTimeout()
    old = signal.signal(signal.SIGALRM, handler)
    signal.setitimer(signal.ITIMER_REAL, seconds)
    try:
        return fn()
    finally:
        signal.setitimer(signal.ITIMER_REAL, 0)
        signal.signal(signal.SIGALRM, old)


def _exc(ex):
    return "%s: %s" % (type(ex).__name__, str(ex)[:160])


_cache = {}


def env(g):
    key = repr(sorted(g.items()))
    if key not in _cache:
        _cache.clear()
        _cache[key] = {"cg": canonical(g), "graph": gg.GrammarGraph.from_grammar(g)}
    return _cache[key]


def fixedlen(g, row, cap):
    from isla.solver import create_fixed_length_tree
    e = env(g)
    random.seed(row["seed"])
    start = DerivationTree(row["nt"], None) if row["as_tree"] else row["nt"]
    t = capped(cap, lambda: create_fixed_length_tree(start, e["cg"], row["len"]))
    return {"r": {"none": True} if t is None else {"none": False, "t": pj.tree_to_json(t)}}


def count(g, row, cap):
    e = env(g)
    random.seed(row["seed"])
    arg = pj.json_to_tree(row["arg"], DerivationTree)
    num = {"str": str(row["num"]), "leaf": DerivationTree(str(row["num"]), None),
           "closed": DerivationTree(str(row["num"]), ())}[row["num_as"]]
    res = capped(cap, lambda: COUNT_PREDICATE.evaluate(e["graph"], arg, row["needle"], num))
    r = res.result
    if r is True or r is False:
        return {"answer": "true" if r else "false"}
    if r is None:
        return {"answer": "notready"}
    keys = list(r.keys())
    if len(keys) == 1 and isinstance(keys[0], DerivationTree) and keys[0].id == arg.id:
        return {"answer": "completion", "t": pj.tree_to_json(r[keys[0]])}
    return {"answer": "other-substitution"}


def numeric(g, row, cap):
    import z3
    from isla import language
    from isla.solver import ISLaSolver
    from isla.z3_helpers import z3_eq
    e = env(g)
    if "solver" not in e:
        e["solver"] = ISLaSolver(g)
    var = language.Variable("x", row["nt"])
    x0 = z3.Int("x_0")
    s = z3.Solver()
    s.add(z3_eq(x0, z3.IntVal(row["v"])))
    assert s.check() == z3.sat
    model = s.model()
    t = capped(cap, lambda: e["solver"].extract_model_value_int_var(None, var, model, {var: x0}, set(), {var}))
    return {"t": pj.tree_to_json(t)}


def run(task):
    DerivationTree.next_id = max(DerivationTree.next_id, 1000000)
    g = pj.json_to_grammar(task["g"])
    out = []
    for row in task["rows"]:
        rec = {"id": row["id"], "res": "ok", "exc": ""}
        try:
            rec.update({"fixedlen": fixedlen, "count": count, "numeric": numeric}[row["kind"]](g, row, task["cap"]))
        except StepTimeout:
            rec["res"] = "timeout"
        except BaseException as ex:
            if isinstance(ex, (KeyboardInterrupt, SystemExit)):
                raise
            rec["res"] = "exc"
            rec["exc"] = _exc(ex)
        out.append(rec)
    return {"rows": out}
