"""C10 driver: runs EarleyParser.parse and ISLaSolver.parse on (grammar, nonterminal, string)
and records acceptance, exceptions and the returned trees."""
import itertools

from isla.derivation_tree import DerivationTree
from isla.parser import EarleyParser
from isla.solver import ISLaSolver

from harness import project as pj


def strings(alphabet, L):
    for n in range(L + 1):
        for tup in itertools.product(alphabet, repeat=n):
            yield "".join(tup)


def record(fn):
    try:
        trees = fn()
        return {"res": "ok", "exc": "", "trees": [pj.tree_to_json(t) for t in trees]}
    except SyntaxError:
        return {"res": "syntax", "exc": "SyntaxError", "trees": []}
    except BaseException as ex:
        if isinstance(ex, (KeyboardInterrupt, SystemExit)):
            raise
        return {"res": "exc", "exc": "%s: %s" % (type(ex).__name__, str(ex)[:200]), "trees": []}


def run(task):
    out = []
    for case in task["cases"]:
        g = pj.json_to_grammar(case["g"])
        L = case["L"]
        alphabet = sorted({ch for alts in g.values() for a in alts for tok in pj.RE_NT.split(a)
                           if tok and not pj.is_nt(tok) for ch in tok}) or ["a"]
        strs = case.get("strings") or list(strings(alphabet, L))
        rows = []
        solver = None
        solver_exc = None
        try:
            solver = ISLaSolver(g)
        except BaseException as ex:
            if isinstance(ex, (KeyboardInterrupt, SystemExit)):
                raise
            solver_exc = "%s: %s" % (type(ex).__name__, str(ex)[:200])
        # one parser object used for all strings of the case, with the lazily produced trees of an input only drawn
        # after the next input has been started (parse() returns a generator)
        shared, pending = EarleyParser(g), None

        def start_shared(s):
            gen = shared.parse(s)
            return gen, [next(gen)]

        def finish(p):
            ps, gen, first = p
            return lambda: [DerivationTree.from_parse_tree(t) for t in first + list(itertools.islice(gen, case.get("max_trees", 20) - 1))]
        for s in strs:
            try:
                started = start_shared(s)
            except BaseException as ex:
                if isinstance(ex, (KeyboardInterrupt, SystemExit)):
                    raise
                started = None
                err = ex

                def reraise(err=err):
                    raise err
                rows.append(dict(record(reraise), nt="<start>", s=pj.cps(s), api="earley-shared"))
            if pending is not None:
                rows.append(dict(record(finish(pending)), nt="<start>", s=pj.cps(pending[0]), api="earley-shared"))
            pending = (s,) + started if started else None
        if pending is not None:
            rows.append(dict(record(finish(pending)), nt="<start>", s=pj.cps(pending[0]), api="earley-shared"))
        for s in strs:
            def earley():
                return [DerivationTree.from_parse_tree(t)
                        for t in itertools.islice(EarleyParser(g).parse(s), case.get("max_trees", 20))]
            rows.append(dict(record(earley), nt="<start>", s=pj.cps(s), api="earley"))
            for nt in g:
                if solver is None:
                    rows.append({"nt": nt, "s": pj.cps(s), "api": "solver", "res": "exc",
                                 "exc": "constructor " + solver_exc, "trees": []})
                    continue
                rows.append(dict(record(lambda: [solver.parse(s, nonterminal=nt, skip_check=True, silent=True)]),
                                 nt=nt, s=pj.cps(s), api="solver"))
        out.append({"idx": case["idx"], "g": pj.grammar_to_json(g), "L": L, "rows": rows})
    return {"cases": out}
