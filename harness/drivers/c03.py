"""C03 driver: evaluates formulas (given as core-syntax text) on closed trees through
isla.evaluator.evaluate() and ISLaSolver.check(); records verdicts only."""
import grammar_graph.gg as gg
from isla.derivation_tree import DerivationTree
from isla.evaluator import evaluate
from isla.isla_predicates import STANDARD_SEMANTIC_PREDICATES, STANDARD_STRUCTURAL_PREDICATES
from isla.language import parse_isla
from isla.solver import ISLaSolver

from harness import project as pj


def tv(r):
    return "T" if r.is_true() else "F" if r.is_false() else "U"


def exc(ex):
    return "X:%s" % type(ex).__name__


def run(task):
    g = pj.json_to_grammar(task["g"])
    graph = gg.GrammarGraph.from_grammar(g)
    trees = [pj.json_to_tree(t, DerivationTree, eps_fuzzer_shape=task.get("eps_fuzzer_shape", False)) for t in task["trees"]]
    out = []
    pre = task.get("prelude")
    if pre:
        # history: the same texts were used with a sibling grammar (same nonterminal names, other productions)
        # earlier in this interpreter; nothing of that is judged
        from isla.parser import EarleyParser
        pg = pj.json_to_grammar(pre["g"])
        try:
            ptree = DerivationTree.from_parse_tree(next(EarleyParser(pg).parse(pre["input"])))
        except Exception:
            ptree = None
        for f in task["formulas"]:
            try:
                pf = parse_isla(f["text"], pg, STANDARD_STRUCTURAL_PREDICATES, STANDARD_SEMANTIC_PREDICATES)
                if ptree is not None:
                    evaluate(pf, ptree, pg)
                    evaluate(pf, DerivationTree("<start>", None), pg)
            except Exception:
                pass
    for f in task["formulas"]:
        row = []
        try:
            formula = parse_isla(f["text"], g, STANDARD_STRUCTURAL_PREDICATES, STANDARD_SEMANTIC_PREDICATES)
            perr = None
        except BaseException as ex:
            if isinstance(ex, (KeyboardInterrupt, SystemExit)):
                raise
            perr = exc(ex) + "@parse"
        solver = None
        serr = None
        if perr is None and task.get("check", True):
            try:
                solver = ISLaSolver(g, f["text"])
            except BaseException as ex:
                if isinstance(ex, (KeyboardInterrupt, SystemExit)):
                    raise
                serr = exc(ex) + "@solver"
        for k, t in enumerate(trees):
            if perr:
                row.append({"e": perr, "c": "NA"})
                continue
            try:
                # every other call leaves the construction of the grammar graph to evaluate() itself
                e = tv(evaluate(formula, t, g, graph=graph) if k % 2 == 0 else evaluate(formula, t, g))
            except BaseException as ex:
                if isinstance(ex, (KeyboardInterrupt, SystemExit)):
                    raise
                e = exc(ex)
            c = "NA"
            if task.get("check", True):
                if serr:
                    c = serr
                else:
                    try:
                        c = "T" if solver.check(t) else "F"
                    except BaseException as ex:
                        if isinstance(ex, (KeyboardInterrupt, SystemExit)):
                            raise
                        c = exc(ex)
            row.append({"e": e, "c": c})
        out.append(row)
    return {"obs": out}
