"""C05 driver: for every term of the grid builds ground Boolean atoms and records how ISLa
judges them through three routes (z3_helpers.is_valid, SMTFormula auto-evaluation on
substitution, evaluate() on a one-atom constraint) and how Z3 itself judges them."""
import z3

from isla.derivation_tree import DerivationTree
from isla.evaluator import evaluate
from isla.language import SMTFormula, BoundVariable
from isla.z3_helpers import is_valid

from harness import smt

BOOL_OPS = {"=", "distinct", "and", "or", "not", "=>", "xor", "<", "<=", ">", ">=", "str.<", "str.<=",
            "str.prefixof", "str.suffixof", "str.contains", "str.in_re", "str.is_digit"}
INT_OPS = {"+", "-", "*", "div", "mod", "abs", "^", "str.len", "str.indexof", "str.to_code", "str.to.int"}


def sort_of(t):
    if t["k"] == "app":
        if t["f"] == "ite":
            return sort_of(t["args"][1])
        return "bool" if t["f"] in BOOL_OPS else "int" if t["f"] in INT_OPS else "str"
    return {"str": "str", "int": "int", "bool": "bool", "var": "str"}[t["k"]]


_SCRATCH = [None]


def parse(text, names=()):
    # z3 4.11's parser keeps reporting a stale error after a failed parse in the same context:
    # try the text in a scratch context first (replaced after a failure), so that the main
    # context never sees an error
    if _SCRATCH[0] is None:
        _SCRATCH[0] = z3.Context()
    scratch = _SCRATCH[0]
    try:
        z3.parse_smt2_string("(assert %s)" % text, decls={n: z3.String(n, ctx=scratch) for n in names}, ctx=scratch)
    except BaseException:
        _SCRATCH[0] = None
        raise
    return z3.parse_smt2_string("(assert %s)" % text, decls={n: z3.String(n) for n in names})[0]


def fold_negative_numerals(e):
    """(- 3) as produced by the SMT-LIB parser -> the numeral -3 (what ISLa's own parser and the
    solver produce), so that negative numbers reach ISLa's evaluator as integer values"""
    if z3.is_app(e) and e.decl().kind() == z3.Z3_OP_UMINUS and z3.is_int_value(e.arg(0)):
        return z3.IntVal(-e.arg(0).as_long())
    if z3.is_app(e) and e.num_args() > 0:
        kids = [fold_negative_numerals(c) for c in e.children()]
        if any(not k.eq(c) for k, c in zip(kids, e.children())):
            try:
                return e.decl()(*kids)
            except BaseException:
                return e
    return e


def z3_truth(expr, timeout_ms=4000):
    s = z3.simplify(expr)
    if z3.is_true(s):
        return "T"
    if z3.is_false(s):
        return "F"
    sol = z3.Solver()
    sol.set("timeout", timeout_ms)
    sol.add(z3.Not(expr))
    r1 = sol.check()
    sol2 = z3.Solver()
    sol2.set("timeout", timeout_ms)
    sol2.add(expr)
    r2 = sol2.check()
    if r1 == z3.unsat and r2 == z3.sat:
        return "T"
    if r2 == z3.unsat and r1 == z3.sat:
        return "F"
    return "U"


def tv(r):
    return "T" if r.is_true() else "F" if r.is_false() else "U"


def guard(fn):
    try:
        return fn()
    except BaseException as ex:
        if isinstance(ex, (KeyboardInterrupt, SystemExit)):
            raise
        return "X:%s" % type(ex).__name__


# variable names vary from term to term (the implementation keeps variables in sets: their order depends on the names)
NAME_PAIRS = [["x", "y"], ["a", "b"], ["b", "a"], ["lhs", "rhs"], ["v", "w"], ["n1", "n2"], ["p", "q"], ["s", "t"], ["i", "j"], ["foo", "bar"],
              ["k", "key"], ["u", "v0"], ["left", "right"], ["c", "d"], ["e", "f"], ["g", "h"], ["m", "n"], ["o", "r"], ["y", "x"], ["z", "zz"],
              ["aa", "ab"], ["x1", "x2"], ["fst", "snd"], ["hd", "tl"], ["val", "var"], ["t1", "t0"], ["A", "B"], ["q", "p"], ["w", "v"], ["l", "r"]]


def lift(t, names):
    """replace the first string literals that are direct or nested arguments by variables"""
    env = {}

    def walk(u):
        if u["k"] == "str" and len(env) < len(names):
            s = "".join(chr(c) for c in u["s"])
            for n, v in env.items():
                if v == s:
                    return smt.V(n)
            n = names[len(env)]
            env[n] = s
            return smt.V(n)
        if u["k"] == "app":
            if u["f"] in ("re.range",):
                return u
            return dict(u, args=[walk(a) for a in u["args"]])
        return u
    return walk(t), env


def isla_string(cps):
    out = []
    for c in cps:
        if c == 34:
            out.append('\\"')
        elif c == 92 or c < 32 or c > 126:
            out.append("\\u{%x}" % c)
        else:
            out.append(chr(c))
    return '"' + "".join(out) + '"'


def to_isla(t):
    k = t["k"]
    if k == "var":
        return t["v"]
    if k == "str":
        return isla_string(t["s"])
    if k == "int":
        return str(t["i"])          # ISLa's lexer knows negative integer literals
    if k == "bool":
        return "true" if t["b"] else "false"
    f = t["f"]
    args = " ".join(to_isla(a) for a in t["args"])
    if f == "re.loop":
        lo, hi = t["p"]
        return "((_ re.loop %d %d) %s)" % (lo, hi, args) if hi >= 0 else "((_ re.loop %d) %s)" % (lo, args)
    if f == "re.^":
        return "((_ re.^ %d) %s)" % (t["p"][0], args)
    if not t["args"]:
        return f
    return "(%s %s)" % (f, args)


def atoms_for(term):
    so = sort_of(term)
    if so == "bool":
        return [term]
    val = z3.simplify(parse("(= %s %s)" % (smt.to_smt2(term), '""' if so == "str" else "0")).arg(0))
    out = []
    if so == "int" and z3.is_int_value(val):
        v = val.as_long()
        if abs(v) < 10 ** 8:
            out += [smt.A("=", term, smt.I(v)), smt.A("=", term, smt.I(v + 1)), smt.A("<=", term, smt.I(v - 1))]
    elif so == "str" and z3.is_string_value(val):
        s = val.as_string()
        # as_string() escapes non-printables as \u{..}; decode
        import re
        s = re.sub(r"\\u\{([0-9a-fA-F]+)\}", lambda m: chr(int(m.group(1), 16)), s)
        out += [smt.A("=", term, smt.S(s)), smt.A("=", term, smt.S(s + "a")), smt.A("distinct", term, smt.S(s))]
    if not out:
        # Z3 does not reduce the term to a value (e.g. division by zero): compare with a constant
        out = [smt.A("=", term, smt.I(0) if so == "int" else smt.S(""))]
    return out


EXIT_AFTER = False
ISLA_LEXER_OPS = {"=", "<", "<=", ">", ">=", "+", "-", "*", "div", "mod", "abs", "^", "and", "or", "not", "=>", "xor",
                  "re.++", "str.++", "str.<=", "re.+", "re.*", "str.len", "str.in_re", "str.to_re", "re.none", "re.all",
                  "re.allchar", "str.at", "str.substr", "str.prefixof", "str.suffixof", "str.contains", "str.indexof",
                  "str.replace", "str.replace_all", "re.union", "re.inter", "re.comp", "re.diff", "re.opt", "re.range",
                  "str.is_digit", "str.to_code", "str.from_code", "str.to.int", "str.from_int"}


def parser_healthy():
    try:
        z3.parse_smt2_string("(assert (= 1 1))")
        return True
    except BaseException:
        return False


def run(task):
    global EXIT_AFTER
    res = []
    for case in task["cases"]:
        if EXIT_AFTER:
            res.append({"id": case["id"], "fam": case["fam"], "term": case["term"], "skip": "worker retired"})
            continue
        fam, term = case["fam"], case["term"]
        try:
            atoms = atoms_for(term)
        except BaseException as ex:
            if isinstance(ex, (KeyboardInterrupt, SystemExit)):
                raise
            res.append({"id": case["id"], "fam": fam, "term": term, "skip": "atoms: %s" % ex})
            continue
        for k, atom in enumerate(atoms):
            rec = {"id": case["id"] * 10 + k, "fam": fam, "term": atom, "nomodel": fam == "bignum"}
            try:
                ground = parse(smt.to_smt2(atom))
                if case["id"] % 2 == 0:       # every other term: negative literals as numerals
                    ground = fold_negative_numerals(ground)
            except BaseException as ex:
                if isinstance(ex, (KeyboardInterrupt, SystemExit)):
                    raise
                rec["skip"] = "z3 parse: %s" % str(ex)[:100]
                res.append(rec)
                continue
            rec["z"] = guard(lambda: z3_truth(ground))
            rec["i1"] = guard(lambda: tv(is_valid(ground)))
            # route 2: SMTFormula with variables, instantiated by substitution
            lifted, env = lift(atom, NAME_PAIRS[case["id"] % len(NAME_PAIRS)])
            if env:
                def route2():
                    expr = parse(smt.to_smt2(lifted), env.keys())
                    if case["id"] % 2 == 0:
                        expr = fold_negative_numerals(expr)
                    vs = {n: BoundVariable(n, "<%s>" % n) for n in env}
                    f = SMTFormula(expr, *vs.values())
                    g = f.substitute_expressions({vs[n]: DerivationTree("<%s>" % n, [DerivationTree(s, ())]) for n, s in env.items()})
                    if not isinstance(g, SMTFormula):
                        return "X:NotSMT"
                    return "T" if z3.is_true(g.formula) else "F" if z3.is_false(g.formula) else "U"
                rec["i2"] = guard(route2)
            else:
                rec["i2"] = "NA"
            # route 3: evaluate() on a one-atom constraint (sampled)
            if (env and case.get("route3") and all("<" not in s and ">" not in s for s in env.values())
                    and smt.ops_in(lifted) <= ISLA_LEXER_OPS):
                def route3():
                    names = list(env)
                    grammar = {"<start>": ["".join("<%s>" % n for n in names)]}
                    for n in names:
                        grammar["<%s>" % n] = [env[n]]
                    tree = DerivationTree("<start>", [DerivationTree("<%s>" % n, [DerivationTree(env[n], ())]) for n in names])
                    text = "".join("forall <%s> %s in start: " % (n, n) for n in names) + to_isla(lifted)
                    return tv(evaluate(text, tree, grammar))
                rec["i3"] = guard(route3)
                if rec["i3"].startswith("X:") and not parser_healthy():
                    # a failed Z3 parse inside ISLa leaves Z3's parser unusable in this process
                    EXIT_AFTER = True
            else:
                rec["i3"] = "NA"
            res.append(rec)
    return {"cases": res}
