"""C15 driver: calls isla.z3_helpers.numeric_intervals_from_regex on a regular expression and
isla.z3_helpers.compress_concatenation_elements on a list of regular expressions (both given as
SMT-LIB terms in the wire format of spec/SmtLib.tla) and records what comes back.  Results are
transported only: sys.maxsize bounds become infinity markers, z3 expressions are projected back
to terms with harness.project.z3_to_term."""
import sys

import z3
from returns.maybe import Nothing

from isla.z3_helpers import compress_concatenation_elements, numeric_intervals_from_regex

from harness import project as pj
from harness import smt

_SCRATCH = [None]
LIMIT = 2 ** 31 - 2


def parse_re(term):
    """z3 regular expression for a RegLan term.  z3 4.11's SMT-LIB parser keeps reporting a
    stale error after a failed parse in the same context (see drivers/c05.py): the text is first
    tried in a scratch context, so the main context never sees an error."""
    text = "(assert (str.in_re \"\" %s))" % smt.to_smt2(term)
    if _SCRATCH[0] is None:
        _SCRATCH[0] = z3.Context()
    try:
        z3.parse_smt2_string(text, ctx=_SCRATCH[0])
    except BaseException:
        _SCRATCH[0] = None
        raise
    return z3.parse_smt2_string(text)[0].arg(1)


def exc_text(ex):
    return "%s: %s" % (type(ex).__name__, str(ex)[:200])


def project_interval(lo, hi):
    """(lo, hi) -> wire format; None when a finite bound does not fit TLC's integers"""
    loinf = lo <= -sys.maxsize
    hiinf = hi >= sys.maxsize
    if (not loinf and abs(lo) > LIMIT) or (not hiinf and abs(hi) > LIMIT):
        return None
    return {"lo": 0 if loinf else lo, "hi": 0 if hiinf else hi, "loinf": loinf, "hiinf": hiinf}


def run_intervals(case):
    rec = dict(case)
    rec["iv"] = []
    try:
        regex = parse_re(case["term"])
        # what the implementation is given, as z3 represents it (n-ary unions/concatenations are
        # nested by z3): this is the term the specification judges
        rec["term"] = pj.z3_to_term(regex)
    except BaseException as ex:
        if isinstance(ex, (KeyboardInterrupt, SystemExit)):
            raise
        rec["res"] = "skip"
        rec["exc"] = "build: " + exc_text(ex)
        return rec
    try:
        result = numeric_intervals_from_regex(regex)
    except BaseException as ex:
        if isinstance(ex, (KeyboardInterrupt, SystemExit)):
            raise
        rec["res"] = "exc"
        rec["exc"] = exc_text(ex)
        return rec
    rec["exc"] = ""
    if result == Nothing:
        rec["res"] = "nothing"
        return rec
    raw = result.unwrap()
    rec["raw"] = [["-inf" if lo <= -sys.maxsize else lo, "inf" if hi >= sys.maxsize else hi] for lo, hi in raw]
    ivs = [project_interval(lo, hi) for lo, hi in raw]
    if any(iv is None for iv in ivs):
        rec["res"] = "oor"
        return rec
    rec["res"] = "some"
    rec["iv"] = ivs
    return rec


def run_compress(case):
    rec = dict(case)
    rec["ys"] = []
    rec["exc"] = ""
    try:
        xs = [parse_re(t) for t in case["xs"]]
        rec["xs"] = [pj.z3_to_term(x) for x in xs]
    except BaseException as ex:
        if isinstance(ex, (KeyboardInterrupt, SystemExit)):
            raise
        rec["res"] = "skip"
        rec["exc"] = "build: " + exc_text(ex)
        return rec
    try:
        ys = compress_concatenation_elements(xs)
    except BaseException as ex:
        if isinstance(ex, (KeyboardInterrupt, SystemExit)):
            raise
        rec["res"] = "exc"
        rec["exc"] = exc_text(ex)
        return rec
    try:
        rec["ys"] = [pj.z3_to_term(y) for y in ys]
    except pj.Unprojectable as ex:
        rec["res"] = "unprojectable"
        rec["exc"] = str(ex)
        return rec
    if not rec["ys"]:
        rec["res"] = "empty"
        return rec
    rec["res"] = "ok"
    rec["changed"] = rec["xs"] != rec["ys"]
    return rec


def run(task):
    out = []
    for case in task["cases"]:
        out.append(run_intervals(case) if case["kind"] == "iv" else run_compress(case))
    return {"cases": out}
