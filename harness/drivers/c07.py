"""C07 driver: parse -> unparse -> parse -> unparse; records the projections of both formulas, the
implementation's equality of the two, equality of the two texts, and the stage of any exception."""
from isla import language as L
from isla.isla_predicates import STANDARD_SEMANTIC_PREDICATES, STANDARD_STRUCTURAL_PREDICATES

from harness import project as pj
from harness import formulas as F
from harness.z3guard import parser_healthy

EXIT_AFTER = False


def parse(text, g):
    return L.parse_isla(text, g, STANDARD_STRUCTURAL_PREDICATES, STANDARD_SEMANTIC_PREDICATES)


def run(task):
    global EXIT_AFTER
    g = pj.json_to_grammar(task["g"])
    items = []
    for job in task["jobs"]:
        if EXIT_AFTER:
            items.append({"id": job["id"], "retry": True})
            continue
        it = {"id": job["id"], "kind": "same", "f": {"op": "true"}, "h": {"op": "true"}, "r": {"op": "true"}, "exc": "",
              "req": [], "src": job["src"], "u1": "", "u2": ""}
        stage = "parse-source"
        try:
            f1 = parse(job["src"], g)
            stage = "unparse"
            u1 = L.unparse_isla(f1)
            it["u1"] = u1
            stage = "reparse"
            f2 = parse(u1, g)
            stage = "unparse-again"
            u2 = L.unparse_isla(f2)
            it["u2"] = u2
            it["req"] = [["reparsed-formula-equals-first", bool(f1 == f2)], ["unparse-text-stable", u1 == u2]]
            stage = "project"
            r1, r2 = pj.formula_to_json(f1), pj.formula_to_json(f2)
            nb = max(F.max_int(r1), F.max_int(r2))
            it["f"] = F.set_num_bounds_from(r1, nb)
            it["r"] = F.set_num_bounds_from(r2, nb)
        except pj.Unprojectable as ex:
            it["skip"] = str(ex)
        except BaseException as ex:
            if isinstance(ex, (KeyboardInterrupt, SystemExit)):
                raise
            if stage == "parse-source":
                it["skip"] = "source not accepted by parse_isla: %s" % str(ex)[:120]
            else:
                it["exc"] = "%s@%s: %s" % (type(ex).__name__, stage, str(ex)[:200])
            if not parser_healthy():
                EXIT_AFTER = True
        items.append(it)
    return {"items": items}
