"""C20 driver: evaluates the bundled semantic predicates (SemanticPredicate.evaluate(graph, *args)) on
closed argument trees and records the kind of answer (True / False / not ready / substitution) and the
proposed replacement."""
import random
import signal

from grammar_graph import gg
from isla import language
from isla.derivation_tree import DerivationTree
from isla.isla_predicates import (COUNT_PREDICATE, CROP_PREDICATE, EXTEND_CROP_PREDICATE, LJUST_CROP_PREDICATE,
                                  LJUST_PREDICATE, OCTAL_TO_DEC_PREDICATE, RJUST_CROP_PREDICATE, RJUST_PREDICATE)

from harness import project as pj

WIDTH_PREDS = {"crop": CROP_PREDICATE, "ljust": LJUST_PREDICATE, "rjust": RJUST_PREDICATE, "ljust_crop": LJUST_CROP_PREDICATE,
               "rjust_crop": RJUST_CROP_PREDICATE, "extend_crop": EXTEND_CROP_PREDICATE}
NUM = language.Variable.NUMERIC_NTYPE


class StepTimeout(BaseException):
    """wall-clock cap of one call: the call is unjudged"""


EXIT_AFTER = False


def capped(seconds, fn):
    def handler(signum, frame):
        global EXIT_AFTER
        EXIT_AFTER = True      # objects in flight when the timer fired may be half-updated: fresh process for the next task
        raise StepTimeout()
    old = signal.signal(signal.SIGALRM, handler)
    signal.setitimer(signal.ITIMER_REAL, seconds)
    try:
        return fn()
    finally:
        signal.setitimer(signal.ITIMER_REAL, 0)
        signal.signal(signal.SIGALRM, old)


def numarg(n, how, name):
    if how == "var":
        return language.Variable(name, NUM)
    return {"int": n, "str": str(n), "closed": DerivationTree(str(n), ()), "leaf": DerivationTree(str(n), None)}[how]


def observe(res, arg_ids):
    r = res.result
    if r is True:
        return {"kind": "true"}
    if r is False:
        return {"kind": "false"}
    if r is None:
        return {"kind": "notready"}
    if len(r) != 1:
        return {"kind": "subst-other", "note": "%d keys" % len(r)}
    (key, val), = r.items()
    if not isinstance(val, DerivationTree):
        return {"kind": "subst-other", "note": type(val).__name__}
    if isinstance(key, DerivationTree) and key.id not in arg_ids:
        return {"kind": "subst-other", "note": "key is not an argument"}
    if isinstance(val.value, str) and pj.is_nt(val.value):
        return {"kind": "subst-tree", "t": pj.tree_to_json(val), "for": "var" if isinstance(key, language.Variable) else "tree"}
    if isinstance(key, language.Variable) and isinstance(val.value, str) and not val.children:
        return {"kind": "subst-num", "s": pj.cps(val.value)}
    return {"kind": "subst-other", "note": "value %r" % (val.value,)}


_cache = {}


def run(task):
    DerivationTree.next_id = max(DerivationTree.next_id, 1000000)
    for n, gj in task["gs"].items():
        g = pj.json_to_grammar(gj)
        key = n + repr(sorted(g.items()))
        if key not in _cache:
            _cache[key] = gg.GrammarGraph.from_grammar(g)
        _cache[n] = _cache[key]
    out = []
    for row in task["rows"]:
        a, name = row["a"], row["name"]
        graph = _cache[row["grammar"]]
        rec = {"id": row["id"], "res": "ok", "exc": ""}
        random.seed(row.get("seed", 0))
        try:
            if name == "count":
                t = pj.json_to_tree(a["t"], DerivationTree)
                args, ids, pred = (t, a["needle"], numarg(a["num"], "var" if a["numvar"] else row["num_as"], "n")), {t.id}, COUNT_PREDICATE
            elif name == "octal_to_decimal":
                o = language.Variable("o", NUM) if a["ovar"] else pj.json_to_tree(a["o"], DerivationTree)
                d = language.Variable("d", NUM) if a["dvar"] else pj.json_to_tree(a["d"], DerivationTree)
                args, ids = (o, d), {x.id for x in (o, d) if isinstance(x, DerivationTree)}
                pred = OCTAL_TO_DEC_PREDICATE(graph, a["ont"], a["dnt"])
            else:
                t = pj.json_to_tree(a["t"], DerivationTree)
                w = numarg(a["w"], "var" if a["wvar"] else row["w_as"], "w")
                args, ids, pred = ((t, w) if name in ("crop", "extend_crop") else (t, w, pj.text(a["c"]))), {t.id}, WIDTH_PREDS[name]
            res = capped(task["cap"], lambda: pred.evaluate(graph, *args))
            rec["obs"] = observe(res, ids)
        except StepTimeout:
            rec["res"] = "timeout"
        except BaseException as ex:
            if isinstance(ex, (KeyboardInterrupt, SystemExit)):
                raise
            rec["obs"] = {"kind": "exc"}
            rec["exc"] = "%s: %s" % (type(ex).__name__, str(ex)[:160])
        out.append(rec)
    return {"rows": out}
