"""C12 driver: runs GrammarFuzzer / GrammarCoverageFuzzer.expand_tree on open trees and
Mutator.mutate (and each mutation strategy directly) on closed trees and records (pre, post).
A task is a *unit*: one fuzzer / mutator object that processes a list of trees in order (the
coverage fuzzer carries state from one call to the next), so a unit is also what a replay re-runs."""
import random
import signal
import sys

from isla.derivation_tree import DerivationTree
from isla.fuzzer import GrammarCoverageFuzzer, GrammarFuzzer
from isla.mutator import Mutator

from harness import project as pj

STRATEGIES = ("replace_subtree_randomly", "swap_subtrees", "generalize_subtree")


class StepTimeout(BaseException):
    """wall-clock cap of one call (the properties say nothing about speed: such a step is unjudged)"""


EXIT_AFTER = False


def capped(seconds, fn):
    def handler(signum, frame):
        global EXIT_AFTER
        EXIT_AFTER = True      # objects in flight when the timer fired may be half-updated: fresh process for the next task
        raise StepTimeout()
    old = signal.signal(signal.SIGALRM, handler)
    signal.setitimer(signal.ITIMER_REAL, seconds)
    try:
        return fn()
    finally:
        signal.setitimer(signal.ITIMER_REAL, 0)
        signal.signal(signal.SIGALRM, old)


def _exc(ex):
    return "%s: %s" % (type(ex).__name__, str(ex)[:200])


def run(task):
    # units that exercise phase 1 of expand_tree (min_nonterminals > 0) can diverge (the tree grows until the
    # interpreter's recursion limit is hit, quadratic time): a lower limit makes that outcome quick.  All
    # trees of these units are far shallower than the limit.
    old = sys.getrecursionlimit()
    if task.get("reclimit"):
        sys.setrecursionlimit(task["reclimit"])
    try:
        return _run(task)
    finally:
        sys.setrecursionlimit(old)


def _run(task):
    g = pj.json_to_grammar(task["g"])
    steps = []
    seed = task["seed"]
    if task["kind"] == "expand":
        cls = {"GrammarFuzzer": GrammarFuzzer, "GrammarCoverageFuzzer": GrammarCoverageFuzzer}[task["cls"]]
        random.seed(seed)
        fuzzer = cls(g, min_nonterminals=task["minnt"], max_nonterminals=task["maxnt"])
        for k, j in enumerate(task["pres"]):
            pre = pj.json_to_tree(j, DerivationTree, fresh_ids=True, eps_fuzzer_shape=task["eps"])
            step = {"op": "expand_tree", "kind": "expand", "pre": pj.tree_to_json(pre)}
            random.seed(seed * 1000 + k)
            try:
                post = capped(task["cap"], lambda: fuzzer.expand_tree(pre))
                step.update(res="ok", exc="", post=pj.tree_to_json(post))
            except StepTimeout:
                step.update(res="timeout", exc="", post=step["pre"])
            except BaseException as ex:
                if isinstance(ex, (KeyboardInterrupt, SystemExit)):
                    raise
                step.update(res="exc", exc=_exc(ex), post=step["pre"])
            steps.append(step)
    else:
        random.seed(seed)
        mut = Mutator(g, min_mutations=task["minmut"], max_mutations=task["maxmut"])
        for k, j in enumerate(task["pres"]):
            op = task["ops"][k]
            pre = pj.json_to_tree(j, DerivationTree, fresh_ids=True, eps_fuzzer_shape=task["eps"])
            step = {"op": op, "kind": "mutate", "pre": pj.tree_to_json(pre)}
            random.seed(seed * 1000 + k)
            try:
                if op == "mutate":
                    post = capped(task["cap"], lambda: mut.mutate(pre))
                else:
                    post = capped(task["cap"], lambda: getattr(mut, op)(pre).value_or(None))
                if post is None:
                    step.update(res="nothing", exc="", post=step["pre"])
                else:
                    step.update(res="ok", exc="", post=pj.tree_to_json(post))
            except StepTimeout:
                step.update(res="timeout", exc="", post=step["pre"])
            except BaseException as ex:
                if isinstance(ex, (KeyboardInterrupt, SystemExit)):
                    raise
                step.update(res="exc", exc=_exc(ex), post=step["pre"])
            steps.append(step)
    return {"steps": steps}
