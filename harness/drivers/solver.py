"""Solver driver (C01, C02, C18, C22): builds a real ISLaSolver under a virtual clock, calls
solve() according to a schedule and records the trace: hook events (Pop/Admit/ProbeBegin/ProbeEnd),
public-call events (Call/Return/Stop/Timeout/Error) and clock ticks."""
import random
import traceback

import isla.solver as S
from isla import language
from isla import _verif
from isla.derivation_tree import DerivationTree
from isla.existential_helpers import DIRECT_EMBEDDING, SELF_EMBEDDING, CONTEXT_ADDITION

from harness import project as pj
from harness.z3guard import parser_healthy

EXIT_AFTER = False

# Z3 queries run under wall-clock limits (z3_solve: 500 ms, then retries with shuffled formulas and new
# random seeds).  A query that hits its limit makes the run timing-dependent; the count is recorded so
# that C22 can leave such pairs unjudged.
import z3 as _z3
Z3_UNKNOWNS = [0]
_orig_check = _z3.Solver.check


def _counting_check(self, *args):
    r = _orig_check(self, *args)
    if r == _z3.unknown:
        Z3_UNKNOWNS[0] += 1
    return r


_z3.Solver.check = _counting_check


NO_TREE = {"n": "", "nt": False, "open": False, "c": [], "id": -1, "ch": []}
TRUE_FORMULA = None


class Clock:
    """stands in for the `time` module inside isla.solver"""

    def __init__(self, t0=1000):
        self.t = t0

    def time(self):
        return self.t


class Recorder:
    def __init__(self, case):
        self.case = case
        self.events = []
        self.clock = Clock()
        self.sids = {}
        self.next_sid = 0
        self.pops = 0
        self.probe = 0
        self.ticks = {(t["at"], t["n"]): t["by"] for t in case.get("ticks", [])}   # ("pop"|"probe"|"call", n) -> seconds
        self.data = bool(case.get("data"))      # also record the data of every step (spec/SolverData.tla)
        self.data_events = []

    def snapshot(self, solver):
        """the queue as [state id, dense rank of its cost] (costs are floats: only their order is kept)"""
        costs = sorted({c for c, _ in solver.queue})
        return [{"s": self.sid_of(st), "r": costs.index(c)} for c, st in solver.queue]

    def data_event(self, ev, f, **kw):
        if not self.data:
            return
        e = dict({"ev": ev, "kind": "", "sid": 0, "tree": NO_TREE, "ctrue": False, "level": 0, "disj": False,
                  "q": self.snapshot(f["solver"])}, **kw)
        st = f.get("state")
        if st is not None and ev != "ProbeBegin":
            e["tree"] = pj.tree_to_json(st.tree)
            e["ctrue"] = st.constraint == TRUE_FORMULA
            e["level"] = st.level
            e["disj"] = isinstance(st.constraint, language.DisjunctiveFormula)
        self.data_events.append(e)

    def tick(self, kind, n):
        by = self.ticks.get((kind, n))
        if by:
            self.clock.t += by
            self.events.append({"ev": "Tick", "clock": self.clock.t})

    def sid_of(self, state, new=False):
        k = id(state)
        if new or k not in self.sids:
            self.next_sid += 1
            self.sids[k] = self.next_sid
        return self.sids[k]

    def sink(self, ev, f):
        solver = f["solver"]
        q, b = len(solver.queue), len(solver.solutions)
        if ev == "Pop":
            self.pops += 1
            self.events.append({"ev": "Pop", "sid": self.sid_of(f["state"]), "qlen": q, "blen": b})
            self.data_event("Pop", f, sid=self.sid_of(f["state"]))
            self.tick("pop", self.pops)
        elif ev == "Admit":
            e = {"ev": "Admit", "kind": f["kind"], "qlen": q, "blen": b, "sid": 0, "tid": 0}
            if f["kind"] == "Enqueue":
                e["sid"] = self.sid_of(f["state"], new=True)
            elif f["kind"] == "Solution":
                e["tid"] = id(f["state"].tree) & 0x3FFFFFFF     # object identity: the admitted tree object is the one returned later
            self.events.append(e)
            self.data_event("Admit", f, kind=f["kind"], sid=e["sid"])
        elif ev == "ProbeBegin":
            self.probe += 1
            self.events.append({"ev": "ProbeBegin", "sid": self.sid_of(f["state"], new=True), "qlen": q, "blen": b})
            self.data_event("ProbeBegin", f, sid=self.sid_of(f["state"]))
            self.tick("probe", self.probe)
        elif ev == "ProbeEnd":
            self.events.append({"ev": "ProbeEnd", "qlen": q, "blen": b})
            self.data_event("ProbeEnd", f)


def make_solver(case, g):
    st = case.get("settings", {})
    kw = {}
    for k in ("max_number_free_instantiations", "max_number_smt_instantiations", "enforce_unique_trees_in_queue",
              "enable_optimized_z3_queries", "activate_unsat_support", "timeout_seconds", "start_symbol",
              "max_number_tree_insertion_results"):
        if k in st:
            kw[k] = st[k]
    if "tree_insertion_methods" in st:
        kw["tree_insertion_methods"] = st["tree_insertion_methods"]
    return S.ISLaSolver(g, case["text"] if case.get("text") else None, **kw)


def run_case(case):
    global EXIT_AFTER, TRUE_FORMULA
    if TRUE_FORMULA is None:
        import isla.isla_shortcuts as sc
        TRUE_FORMULA = sc.true()
    random.seed(case.get("seed", 0))
    Z3_UNKNOWNS[0] = 0
    g = pj.json_to_grammar(case["g"])
    rec = Recorder(case)
    S.time = rec.clock
    _verif.set_sink(rec.sink)
    out = {"id": case["id"], "g": case["g"], "phi": case.get("phi", {"op": "skip"}), "mdepth": 6,
           "start": case.get("settings", {}).get("start_symbol") or "<start>",
           "timeout": case.get("settings", {}).get("timeout_seconds", -1) if case.get("settings", {}).get("timeout_seconds") is not None else -1,
           "clock0": rec.clock.t, "events": rec.events, "init": 0, "ctor_error": "", "solutions": []}
    try:
        solver = make_solver(case, g)
    except BaseException as ex:
        if isinstance(ex, (KeyboardInterrupt, SystemExit)):
            raise
        out["ctor_error"] = "%s: %s" % (type(ex).__name__, str(ex)[:200])
        if not parser_healthy():
            EXIT_AFTER = True
        _verif.set_sink(None)
        return out
    for _, st in solver.queue:
        rec.sid_of(st, new=True)
    out["init"] = len(solver.queue)
    if rec.data:
        out["data"] = {"id": case["id"], "g": case["g"], "start": out["start"], "unique": bool(solver.enforce_unique_trees_in_queue),
                       "q0": rec.snapshot(solver), "tree0": pj.tree_to_json(solver.initial_tree), "events": rec.data_events}
    ncalls = case.get("calls", 6)
    depth = [0]
    for i in range(1, ncalls + 1):
        rec.tick("call", i)
        rec.events.append({"ev": "Call"})
        try:
            t = solver.solve()
            tj = pj.tree_to_json(t)
            rec.events.append({"ev": "Return", "tid": id(t) & 0x3FFFFFFF, "tree": tj, "qlen": len(solver.queue), "blen": len(solver.solutions)})
            out["solutions"].append(str(t))
        except StopIteration:
            rec.events.append({"ev": "Stop"})
            out["solutions"].append("!Stop")
        except TimeoutError:
            rec.events.append({"ev": "Timeout"})
            out["solutions"].append("!Timeout")
        except BaseException as ex:
            if isinstance(ex, (KeyboardInterrupt, SystemExit)):
                raise
            rec.events.append({"ev": "Error", "exc": "%s: %s" % (type(ex).__name__, str(ex)[:160]),
                               "tb": traceback.format_exc()[-1500:]})
            out["solutions"].append("!" + type(ex).__name__)
            if not parser_healthy():
                EXIT_AFTER = True
            break
    _verif.set_sink(None)
    out["z3_unknowns"] = Z3_UNKNOWNS[0]
    return out


def run(task):
    # one case per task: the pool's wall-clock cap then applies per case
    DerivationTree.next_id = 0
    return run_case(task)
