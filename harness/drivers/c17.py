"""C17 driver (part b): pickle round trip of formulas with SMT string literals."""
import pickle

from isla import language as L
from isla.isla_predicates import STANDARD_SEMANTIC_PREDICATES, STANDARD_STRUCTURAL_PREDICATES

from harness import project as pj
from harness import formulas as F


def run(task):
    g = pj.json_to_grammar(task["g"])
    items = []
    for job in task["jobs"]:
        it = {"id": job["id"], "kind": "same", "f": job["ast"], "h": {"op": "true"}, "r": {"op": "true"}, "exc": "", "req": []}
        stage = "parse"
        try:
            f1 = L.parse_isla(job["text"], g, STANDARD_STRUCTURAL_PREDICATES, STANDARD_SEMANTIC_PREDICATES)
            stage = "pickle"
            data = pickle.dumps(f1)
            stage = "unpickle"
            f2 = pickle.loads(data)
            stage = "project"
            r1, r2 = pj.formula_to_json(f1), pj.formula_to_json(f2)
            it["r"] = r2
            it["req"] = [["unpickled-formula-equals-original", bool(f1 == f2)], ["projection-equal", r1 == r2]]
        except pj.Unprojectable as ex:
            it["skip"] = str(ex)
        except BaseException as ex:
            if isinstance(ex, (KeyboardInterrupt, SystemExit)):
                raise
            if stage == "parse":
                it["skip"] = "not parsed"
            else:
                it["exc"] = "%s@%s: %s" % (type(ex).__name__, stage, str(ex)[:160])
        items.append(it)
    return {"items": items}
