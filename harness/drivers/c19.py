"""C19 driver: materialises one command-line invocation (or one two-step pipeline) of
`python -m isla` in a scratch directory, runs it as a subprocess and records what came back:
exit status, whether stdout/stderr are empty, whether stderr holds a Python traceback.
It never imports isla and computes no verdict."""
import os
import re
import shutil
import subprocess
import tempfile
import time

PY = "/venv/bin/python"
TB_MARK = "Traceback (most recent call last)"


def _env(home):
    e = dict(os.environ)
    e.update({"PYTHONWARNINGS": "ignore", "PYTHONHASHSEED": "0", "HOME": home})   # HOME: no ~/.islarc of the user
    e.pop("PYTHONPATH", None)
    if os.environ.get("VERIF_REPO", "/repo") != "/repo":      # tools/try_seed.py: a patched scratch checkout
        e["PYTHONPATH"] = os.path.join(os.environ["VERIF_REPO"], "src")
    return e


def observe(argv, cwd, timeout):
    t0 = time.time()
    try:
        p = subprocess.run([PY, "-m", "isla"] + argv, cwd=cwd, env=_env(cwd), stdin=subprocess.DEVNULL,
                           stdout=subprocess.PIPE, stderr=subprocess.PIPE, timeout=timeout)
        out = p.stdout.decode("utf-8", "replace")
        err = p.stderr.decode("utf-8", "replace")
        status, timed_out = p.returncode, False
    except subprocess.TimeoutExpired as ex:
        out = (ex.stdout or b"").decode("utf-8", "replace")
        err = (ex.stderr or b"").decode("utf-8", "replace")
        status, timed_out = -1, True
    tb = TB_MARK in err
    exc, where, stack = "", "", []
    if tb:
        lines = [l for l in err.strip().splitlines() if l.strip()]
        m = re.match(r"([A-Za-z_][\w.]*)(:|$)", lines[-1]) if lines else None
        exc = m.group(1) if m else ""
        frames = re.findall(r'File "([^"]+)", line \d+, in (\S+)', err)
        repo = [f for f in frames if "/isla" in f[0] and "site-packages" not in f[0]]
        if repo:
            where = "%s:%s" % (os.path.basename(repo[-1][0]), repo[-1][1])
            stack = ["%s:%s" % (os.path.basename(f), fn) for f, fn in repo][-12:]
    return {"status": status, "out_empty": out.strip() == "", "err_empty": err.strip() == "", "tb": tb, "timeout": timed_out,
            "exc": exc, "where": where, "frames": stack, "wall": round(time.time() - t0, 2), "stdout": out, "stdout_head": out[:400], "stderr_tail": err[-700:]}


def strip_obs(o):
    return {k: v for k, v in o.items() if k != "stdout"}


def write_files(d, files):
    for name, content in files.items():
        path = os.path.join(d, name)
        os.makedirs(os.path.dirname(path), exist_ok=True)
        with open(path, "wb") as f:
            f.write(content.encode("utf-8"))


def run_single(task, d):
    write_files(d, task["files"])
    return {"obs": strip_obs(observe(task["argv"], d, task.get("timeout", 60)))}


def numbered(dirpath, ext):
    names = [n for n in os.listdir(dirpath) if n.endswith(ext)]
    return sorted(names, key=lambda n: int(n.split(".")[0]) if n.split(".")[0].isdigit() else 10 ** 9)


def run_pipe(task, d):
    """producer (solve / parse) followed by one `check` per emitted output"""
    write_files(d, task["files"])
    prod, mode = task["producer"], task["mode"]
    timeout = task.get("timeout", 90)
    if prod == "solve" and mode.startswith("dir-"):
        os.makedirs(os.path.join(d, "out"), exist_ok=True)
    o = observe(task["producer_argv"], d, timeout)
    outputs = []          # (how to hand it to check, content)
    if prod == "solve":
        if mode.startswith("dir-"):
            for n in numbered(os.path.join(d, "out"), ".txt" if mode == "dir-txt" else ".json"):
                with open(os.path.join(d, "out", n), "rb") as f:
                    outputs.append(("out/" + n, f.read().decode("utf-8", "replace")))
        else:       # one solution per stdout line (only used for languages without line breaks)
            for k, line in enumerate(o["stdout"].split("\n")):
                if line != "":
                    outputs.append(("line%d" % k, line))
    else:
        if mode.startswith("outfile-"):
            p = os.path.join(d, "tree.json")
            if os.path.exists(p):
                with open(p, "rb") as f:
                    outputs.append(("tree.json", f.read().decode("utf-8", "replace")))
        elif o["status"] == 0 and not o["out_empty"]:
            # what a shell redirection `isla parse ... > tree.json` leaves behind
            with open(os.path.join(d, "tree.json"), "wb") as f:
                f.write(o["stdout"].encode("utf-8"))
            outputs.append(("tree.json", o["stdout"]))
    events = [dict(strip_obs(o), a=prod, spec=task["spec"], outs=len(outputs), file=0)]
    for k, (name, content) in enumerate(outputs):
        if task["checkvia"] == "string":
            argv = [a for a in task["check_argv"] if a != "{}"]
            argv = argv[:1] + ["-i", content] + argv[1:]
        else:
            argv = [name if a == "{}" else a for a in task["check_argv"]]
        c = observe(argv, d, timeout)
        events.append(dict(strip_obs(c), a="check", spec=task["spec"], outs=0, file=k + 1, output=content[:2000],
                           argv=argv if task["checkvia"] == "file" else argv[:1] + ["-i", "<output>"] + argv[3:]))
    return {"events": events}


def run(task):
    d = tempfile.mkdtemp(prefix="c19-")
    try:
        if task["kind"] == "single":
            return run_single(task, d)
        return run_pipe(task, d)
    finally:
        shutil.rmtree(d, ignore_errors=True)
