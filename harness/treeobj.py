"""Universe of the TreeObject model: grammar, initial trees and replacement library."""
from harness import project as pj

G = {"<start>": ["<A><B>"], "<A>": ["a<A>", ""], "<B>": ["b", "<A>c", "<W>"],
     "<W>": ["<d>" * 40], "<d>": ["0", "1"]}


def N(n, *ch):
    return {"n": n, "nt": True, "open": False, "ch": list(ch), "c": [], "id": 0}


def O(n):
    return {"n": n, "nt": True, "open": True, "ch": [], "c": [], "id": 0}


def T(s):
    return {"n": "", "nt": False, "open": False, "ch": [], "c": pj.cps(s), "id": 0}


def wide(bits):
    return N("<W>", *[N("<d>", T(b)) for b in bits])


def universe():
    inits = [
        O("<start>"),
        N("<start>", N("<A>", T("a"), O("<A>")), N("<B>", T("b"))),
        N("<start>", N("<A>"), N("<B>", N("<A>", T("a"), N("<A>")), T("c"))),
        N("<start>", N("<A>"), N("<B>", wide("01" * 20))),
        N("<start>", O("<A>"), O("<B>")),
    ]
    lib = [
        O("<A>"), N("<A>"), N("<A>", T("a"), O("<A>")), N("<B>", T("b")),
        N("<B>", wide("10" * 20)), N("<d>", T("1")), O("<B>"), N("<A>", T("a"), N("<A>", T("a"), N("<A>"))),
        N("<B>", O("<A>"), T("c")), O("<W>"),
    ]
    k = 0
    for t in inits:
        pj.renumber(t, 0)
    for i, t in enumerate(lib):
        pj.renumber(t, 1000 * (i + 1))
    return {"g": pj.grammar_to_json(G), "inits": inits, "lib": lib}
