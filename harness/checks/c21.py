"""C21 -- inputs generated for the shipped formalizations (CSV, XML, reST, simple TAR) pass independent
validity checks.  The harness builds ISLaSolver objects for the shipped grammar + constraints with the
settings of tests/test_solver.py (and cost-setting variants / several seeds), draws solutions under a
wall-clock cap in worker processes and records the output strings; TLC judges every output with the
validity predicates of spec/Formats.tla (MC_C21, one state per output).
NOT covered: "docutils renders the reST output without errors" (an external renderer is not expressible in
the specification); for reST only the underline / link target / numbering rules are claimed."""
import hashlib
import json
import os
import shutil

from harness import tlc
from harness import project as pj
from harness.common import Check, pmap, tmap, NPROC

PID = "C21"
MAXLEN = 6000          # longer outputs are unjudged (TLC scans are recursive, one level per character)
FORMATS = ("csv", "xml", "rest", "tar")
TIERS = {
    # (cost setting, seed, number of solutions); cap = wall-clock seconds per solver
    "quick": dict(cap=75, runs={"csv": [("test", 0, 40), ("xml-test-plain", 1, 20), ("test-free10", 2, 30)],
                                "xml": [("test", 0, 150), ("xml-test-plain", 1, 90)],
                                "rest": [("test", 0, 40), ("std", 1, 20)],
                                "tar": [("test", 0, 20), ("tar-test", 1, 12)]}),
    "thorough": dict(cap=150, runs=None),
}
TIERS["thorough"]["runs"] = {f: [(c, s, n) for c in cs for s in (0, 1, 2)] for f, cs, n in (
    ("csv", ("test", "xml-test-plain", "scriptsize-test", "test-free10"), 120),
    ("xml", ("test", "std", "xml-test-plain"), 160),
    ("rest", ("test", "std", "scriptsize-test"), 60),
    ("tar", ("test", "tar-test", "scriptsize-test"), 50))}
JCFG = "INIT JInit\nNEXT JNext\nINVARIANT Judged\nCHECK_DEADLOCK FALSE\n"
STAT_NAMES = {"csv": ("csv_records", "csv_columns_of_first_record", None),
              "xml": ("xml_tags", "xml_attributes", "xml_namespace_prefix_uses"),
              "rest": ("rest_section_titles", "rest_link_references", "rest_consecutive_enumeration_pairs"),
              "tar": ("tar_entries", "tar_links_with_target", None)}


def tuples(res, tag):
    """PrintT tuples of a TLC run; TLC wraps long values over several lines, so lines are joined until the value parses"""
    lines = res.out.splitlines()
    out, k = [], 0
    while k < len(lines):
        s = lines[k].lstrip()
        if s.startswith('<<"%s"' % tag) or s.startswith('<< "%s"' % tag):
            buf = lines[k]
            for extra in range(400):
                try:
                    out.append(tlc.parse_tla_value(buf))
                    break
                except (AssertionError, IndexError, ValueError):
                    k += 1
                    if k >= len(lines):
                        raise RuntimeError("unterminated TLC value: %r" % buf[:200])
                    buf += "\n" + lines[k]
        k += 1
    return out


def draw(chk, wd, plan, cap):
    tasks = []
    scale = float(os.environ.get("VERIF_C21_SCALE", "1"))       # development aid: shrink a thorough run
    for fmt in FORMATS:
        for cost, seed, n in plan[fmt]:
            n = max(1, int(n * scale))
            path = os.path.join(wd, "out-%s-%s-%d.jsonl" % (fmt, cost, seed))
            tasks.append({"fmt": fmt, "cost": cost, "seed": seed + chk.seed * 1000, "n": n, "cap": cap, "out_path": path})
    # slowest first
    order = {"rest": 0, "xml": 1, "tar": 2, "csv": 3}
    tasks.sort(key=lambda t: (order[t["fmt"]], -t["n"]))
    results = pmap("c21", tasks, timeout=cap + 90)
    outputs = []
    for t, res in zip(tasks, results):
        key = "%s/%s/%d" % (t["fmt"], t["cost"], t["seed"])
        if "_driver_error" in res:
            raise RuntimeError("C21 driver failed for %s: %s\n%s" % (key, res["_driver_error"], res.get("tb", "")))
        end = "killed-at-cap" if (res.get("_timeout") or res.get("_crashed")) else res["end"]
        got = []
        if os.path.exists(t["out_path"]):
            with open(t["out_path"]) as f:
                for line in f:
                    line = line.strip()
                    if line:
                        try:
                            got.append(json.loads(line))
                        except ValueError:      # a line cut off by the kill
                            pass
        chk.cov.setdefault("solver_runs", {})[key] = {"asked": t["n"], "produced": len(got), "ended": end}
        if end.startswith("exception"):
            chk.note("solver_exceptions_not_judged_here")
        outputs.extend(got)
    for k, o in enumerate(outputs):
        o["id"] = k + 1
    return outputs


def judge(chk, wd, outputs):
    small = [o for o in outputs if len(o["text"]) <= MAXLEN]
    for o in outputs:
        if len(o["text"]) > MAXLEN:
            chk.cov["unjudged"] += 1
            chk.note("unjudged_too_long")
    if not small:
        return
    # balance shards by text length
    small.sort(key=lambda o: -len(o["text"]))
    shards = [[] for _ in range(min(NPROC, len(small)))]
    for k, o in enumerate(small):
        shards[k % len(shards)].append(o)

    def run(ks):
        k, shard = ks
        w = os.path.join(wd, "j%d" % k)
        os.makedirs(w, exist_ok=True)
        cf = os.path.join(w, "outputs.json")
        with open(cf, "w") as f:
            json.dump({"outputs": [{"id": o["id"], "fmt": o["fmt"], "text": o["text"], "struct": o["struct"]} for o in shard]}, f)
        return tlc.run_tlc("MC_C21", JCFG, env={"CASE_FILE": cf}, wd=w, xmx="3g", timeout=3000)
    rs = tmap(run, list(enumerate(shards)))
    byid = {o["id"]: o for o in small}
    judged = 0
    for r in rs:
        chk.add_tlc(r)
        for _, oid, verdict, errs, stats in tuples(r, "OUT"):
            judged += 1
            o = byid[oid]
            o["verdict"], o["errors"], o["stats"] = verdict, sorted(errs), stats
            if verdict == "UNJUDGED":
                chk.cov["unjudged"] += 1
                chk.note("unjudged_number_beyond_32_bit")
                continue
            chk.cov["evaluations"] += 1
            chk.cov["traces_validated_against_impl"] += 1
            chk.cov.setdefault("outputs_judged", {}).setdefault(o["fmt"], 0)
            chk.cov["outputs_judged"][o["fmt"]] += 1
            for name, v in zip(STAT_NAMES[o["fmt"]], stats):
                if name:
                    chk.cov.setdefault("exercised", {}).setdefault(name, 0)
                    chk.cov["exercised"][name] += v
            a, b, c = stats
            interesting = {"csv": a >= 2 and b >= 2, "xml": a >= 3 or b >= 1, "rest": a + b + c >= 1, "tar": a >= 2 or b >= 1}[o["fmt"]]
            if interesting:
                chk.nontrivial(o["fmt"] + ":" + hashlib.sha1(json.dumps(o["text"]).encode()).hexdigest()[:16])
            if verdict == "MISMATCH":
                text = pj.text(o["text"])
                rec = {"format": o["fmt"], "cost": o["cost"], "seed": o["seed"], "k": o["k"], "text": text, "text_cps": o["text"],
                       "struct": o["struct"], "errors": sorted(errs), "stats": stats}
                # one mismatch per violated clause; reST clauses are checked on the text and on the tree's elements
                clauses = {}
                for e in errs:
                    level, _, name = e.rpartition(":")
                    clauses.setdefault(name, set()).add(level or "text")
                for name in sorted(clauses):
                    chk.mismatch({"format": o["fmt"], "clause": name}, dict(rec, clause=name, levels=sorted(clauses[name])))
    if judged != len(small):
        raise RuntimeError("TLC judged %d of %d outputs" % (judged, len(small)))
    seen = set()
    for o in small:
        if o["fmt"] not in seen and len(o["text"]) < 400 and o.get("stats") and sum(o["stats"]) > 3:
            seen.add(o["fmt"])
            chk.sample({"format": o["fmt"], "cost": o["cost"], "seed": o["seed"], "output": pj.text(o["text"]),
                        "verdict": o["verdict"], "errors": o["errors"], "stats": o["stats"]})


def setup(chk):
    chk.cov["rule"] = (
        "one evaluation = one solver output judged by TLC with Formats.tla (CsvErrors: quote-aware record/field split, equal column counts; "
        "XmlErrors: tag balance by a stack machine, one root, unique attribute names per tag, every used namespace prefix declared by an xmlns: "
        "attribute of the element or an enclosing one; RestTextErrors + RestStructErrors: underline at least as long as its title, every `id_` "
        "reference has a `.. _id:` target, targets unique, consecutive enumeration items numbered n, n+1 with n >= 1 -- on the text and on the "
        "elements the derivation tree labels; TarErrors: 216-byte entries, name/linkname NUL padded, checksum = 6 octal digits NUL space of the "
        "byte sum with the field blanked, typeflag, link target names an entry); solvers: shipped grammar + shipped constraints with the settings "
        "of tests/test_solver.py, plus other cost settings and seeds; non-trivial = distinct outputs that exercise a rule (>=2 records and columns; "
        "nested or attributed XML; a title/reference/enumeration pair; >=2 tar entries or a link)")
    chk.assumptions = [
        "NOT COVERED: the clause 'docutils renders the reST output without errors' -- an external renderer cannot be expressed in or replaced by the "
        "specification; only the underline/link/numbering rule families are decided for reST",
        "the validity predicates read the formats, not ISLa's grammars: CSV records may contain quoted line breaks and separators; XML names/prefixes as in "
        "Namespaces in XML (prefix xml predeclared); a reST underline shorter than 4 characters and shorter than its title is ordinary text (as reST "
        "defines), but every <section-title> the derivation tree contains must obey the rule whatever its length",
        "a tar link (typeflag 2) with an empty link name names no target and is not judged by the link rule; a link to the entry itself counts as existing",
        "outputs longer than %d code points and enumeration numbers beyond 9 digits are unjudged" % MAXLEN,
        "solver exceptions and time-outs are not judged here (C01/C02); only emitted outputs are"]
    chk.cov["not_covered"] = ["reST: docutils rendering without errors"]


def main(tier):
    chk = Check(PID, tier)
    setup(chk)
    P = TIERS[tier]
    wd = tlc.workdir("c21")
    try:
        outputs = draw(chk, wd, P["runs"], P["cap"])
        chk.cov["outputs_recorded"] = len(outputs)
        judge(chk, wd, outputs)
    finally:
        shutil.rmtree(wd, ignore_errors=True)
    return chk.finish(exhaustive=False)


def replay(path):
    """re-runs the solver configuration of each recorded case up to the recorded output and judges everything it emits,
    and judges the recorded text itself"""
    with open(path) as f:
        rec = json.load(f)
    chk = Check(PID, "quick")
    setup(chk)
    wd = tlc.workdir("c21r")
    try:
        outputs = []
        tasks = []
        for k, c in enumerate(rec["cases"]):
            outputs.append({"fmt": c["format"], "cost": c["cost"], "seed": c["seed"], "k": c["k"], "text": c["text_cps"], "struct": c["struct"]})
            tasks.append({"fmt": c["format"], "cost": c["cost"], "seed": c["seed"], "n": c["k"] + 1, "cap": 170,
                          "out_path": os.path.join(wd, "replay-%d.jsonl" % k)})
        for t, res in zip(tasks, pmap("c21", tasks, timeout=260)):
            if os.path.exists(t["out_path"]):
                with open(t["out_path"]) as f:
                    outputs.extend(json.loads(line) for line in f if line.strip())
        for k, o in enumerate(outputs):
            o["id"] = k + 1
        judge(chk, wd, outputs)
    finally:
        shutil.rmtree(wd, ignore_errors=True)
    return chk.finish()


# ------------------------------------------------------------------ self-test of the predicates (./check C21 --selftest)
def _tar_entry(name, flag="0", link="", fix=0, pad="\x00"):
    head = name.ljust(100, pad) + " " * 8 + flag + link.ljust(100, "\x00")
    chk = "%06o\x00 " % (sum(head.encode("latin-1")) + fix)
    return name.ljust(100, pad) + chk + flag + link.ljust(100, "\x00") + "CONTENT"


SELFTEST = [
    ("csv", "a;b\nc;d\n", []), ("csv", "a;b\nc\n", ["unequal-column-counts"]), ("csv", '"a;b";c\nd;e\n', []),
    ("csv", '"a\nb";c\nd;e\n', []), ("csv", 'a;"b\n', ["unbalanced-quote"]), ("csv", "a;b\n\nc;d\n", ["unequal-column-counts"]),
    ("csv", "a;b;c\nd;e;f", []), ("csv", "", ["no-record"]),
    ("xml", "<a>x</a>", []), ("xml", "<a><b/>t<c d=\"1\" e=\"2\">u</c></a>", []), ("xml", "<a>x</b>", ["close-tag-mismatch"]),
    ("xml", '<a b="1" b="2"/>', ["duplicate-attribute"]), ("xml", "<p:a/>", ["undeclared-namespace-prefix"]),
    ("xml", '<a xmlns:p="u"><p:b q="/"/></a>', []), ("xml", '<p:a xmlns:p="u"/>', []), ("xml", '<a p:x="1"/>', ["undeclared-namespace-prefix"]),
    ("xml", '<a xmlns:p="u"><b p:x="1" x="2"/></a>', []), ("xml", '<a><b xmlns:p="u"/><p:c/></a>', ["undeclared-namespace-prefix"]),
    ("xml", "<a><b></a>", ["close-tag-mismatch", "unclosed-element"]), ("xml", "<a/><b/>", ["not-exactly-one-root"]),
    ("xml", "<a>x", ["unclosed-element"]), ("xml", "<a", ["not-exactly-one-root", "unterminated-tag"]), ("xml", "x<a/>", ["text-outside-root"]),
    ("xml", '<a b=1/>', ["unquoted-attribute-value"]),
    ("rest", "T\n-\n", []), ("rest", "Title\n===\n", []), ("rest", "Title\n====\n", ["text:underline-too-short"]),
    ("rest", "Title\n=====\n\nx\n", []), ("rest", "x\nTitle\n====\n", []),
    ("rest", ".. _a:\n\nx a_ y\n", []), ("rest", "x b_ y\n", ["text:undefined-link-target"]), ("rest", "b_ y\n", ["text:undefined-link-target"]),
    ("rest", ".. _a:\n\nx\n\n.. _a:\n\ny\n", ["text:duplicate-link-target"]), ("rest", ".. _a:\n\nx\n\n.. _b:\n\na_ b_.\n", []),
    ("rest", "1. a\n2. b\n3. c\n", []), ("rest", "1. a\n3. b\n", ["text:enumeration-not-consecutive"]),
    ("rest", "0. a\n1. b\n", ["text:enumeration-not-consecutive"]), ("rest", "7. a\n\n3. b\n", []), ("rest", "12. a\n13. b\n", []),
    ("tar", _tar_entry("f"), []), ("tar", _tar_entry("f") + _tar_entry("g", "2", "f"), []),
    ("tar", _tar_entry("f", fix=1), ["checksum-value"]), ("tar", _tar_entry("f", "2", "nope"), ["link-target-missing"]),
    ("tar", _tar_entry("f", "2", ""), []), ("tar", _tar_entry("f")[:-1], ["length"]), ("tar", _tar_entry("f", "5"), ["typeflag"]),
    ("tar", _tar_entry("ab\x00     "), ["name-field"]), ("tar", _tar_entry("f", "0", "g\x00h"), ["linkname-field"]),
    ("tar", _tar_entry("x" * 100), []),
]
SELFTEST_STRUCT = [
    ({"titles": [["Title", "==="]], "labels": [], "refs": [], "enums": []}, ["tree:underline-too-short"]),
    ({"titles": [["T", "=="]], "labels": ["a"], "refs": ["a", "b"], "enums": [["1", "2"], ["5"]]}, ["tree:undefined-link-target"]),
    ({"titles": [], "labels": ["a", "a"], "refs": [], "enums": [["3", "5"]]}, ["tree:duplicate-link-target", "tree:enumeration-not-consecutive"]),
]


def selftest():
    """the predicates of Formats.tla on hand-made valid and invalid texts: every expectation must be met"""
    empty = {"titles": [], "labels": [], "refs": [], "enums": []}
    outs = [{"id": k + 1, "fmt": f, "text": pj.cps(t), "struct": empty} for k, (f, t, _) in enumerate(SELFTEST)]
    exp = [sorted(e) for _, _, e in SELFTEST]
    for s, e in SELFTEST_STRUCT:
        outs.append({"id": len(outs) + 1, "fmt": "rest", "text": pj.cps("x\n"),
                     "struct": {k: ([[pj.cps(a) for a in x] for x in v] if k in ("titles", "enums") else [pj.cps(a) for a in v]) for k, v in s.items()}})
        exp.append(sorted(e))
    wd = tlc.workdir("c21s")
    try:
        cf = os.path.join(wd, "outputs.json")
        with open(cf, "w") as f:
            json.dump({"outputs": outs}, f)
        r = tlc.run_tlc("MC_C21", JCFG, env={"CASE_FILE": cf}, wd=wd, xmx="2g", timeout=600)
    finally:
        shutil.rmtree(wd, ignore_errors=True)
    bad = 0
    got = {oid: sorted(errs) for _, oid, _, errs, _ in tuples(r, "OUT")}
    for k, e in enumerate(exp):
        if got.get(k + 1) != e:
            bad += 1
            print("SELFTEST-FAIL", outs[k]["fmt"], repr(pj.text(outs[k]["text"]))[:80], "expected", e, "got", got.get(k + 1))
    print("C21 selftest: %d texts, %d unexpected" % (len(exp), bad))
    return 2 if bad else 0
