"""C10 -- the parser accepts exactly the grammar's language and returns faithful trees.
TLC enumerates tiny grammars (spec/MC_C10.tla, Gen); the harness parses every string up to the
length bound with EarleyParser.parse and ISLaSolver.parse; TLC decides membership by Kleene
iteration (Grammars!LangUpTo) and judges acceptance and the returned trees."""
import json
import os
import random
import shutil

from harness import catalogue, tlc
from harness import project as pj
from harness.common import Check, chunks, pmap, tmap, NPROC

TIERS = {"quick": dict(nrandom=60, f1_sample=240, L=4, Lcat=5),
         "thorough": dict(nrandom=1500, f1_sample=None, L=5, Lcat=6)}
CAT = ["ASSGN2", "NULLABLE", "AMBIG", "LEFTREC", "RIGHTREC", "MULTICHAR", "TWOSTART", "NUM", "XMLISH", "RECSTART_R", "RECSTART_L", "RECSTART_M"]
CAT_L = {"ASSGN2": 5, "NUM": 4, "XMLISH": 5, "LEFTREC": 5, "MULTICHAR": 6}   # alphabets are larger: keep the string count down
JCFG = "CONSTANTS NRandom = 1\nINIT JInit\nNEXT JNext\nINVARIANT Judged\nCHECK_DEADLOCK FALSE\n"


def judge(wd, k, cases):
    path = os.path.join(wd, "case%d.json" % k)
    with open(path, "w") as f:
        json.dump({"cases": cases}, f)
    jw = os.path.join(wd, "j%d" % k)
    os.makedirs(jw, exist_ok=True)
    return tlc.run_tlc("MC_C10", JCFG, env={"CASE_FILE": path}, wd=jw, xmx="3g", timeout=3000)


def run(chk, cases_in=None):
    P = TIERS[chk.tier]
    wd = tlc.workdir("c10")
    try:
        if cases_in is None:
            out = os.path.join(wd, "g.json")
            r = tlc.run_tlc("MC_C10", "CONSTANTS NRandom = %d\nINIT GInit\nNEXT GNext\nCHECK_DEADLOCK FALSE\n" % P["nrandom"],
                            env={"OUT_FILE": out}, xmx="6g", seed=chk.seed + 1)
            chk.add_tlc(r)
            with open(out) as f:
                gen = json.load(f)
            f1 = gen["f1"]
            chk.cov["family1_grammars_total"] = len(f1)
            if P["f1_sample"] and len(f1) > P["f1_sample"]:
                rnd = random.Random(chk.seed)
                f1 = rnd.sample(f1, P["f1_sample"])
            # the membership oracle itself: Earley.tla (chart closure as a state machine) must accept exactly
            # the strings Kleene iteration puts in the language, and every chart item must be sound
            import itertools
            eg = gen["f1"][:: (12 if chk.tier == "quick" else 3)] + [pj.grammar_to_json(catalogue.GRAMMARS[n]) for n in ("NULLABLE", "AMBIG", "TWOSTART")]
            inputs = [[ord(c) for c in "".join(t)] for n in range(4 if chk.tier == "quick" else 5) for t in itertools.product("ab", repeat=n)]
            ef = os.path.join(wd, "earley.json")
            json.dump({"grammars": eg, "inputs": inputs}, open(ef, "w"))
            r = tlc.run_tlc("Earley", "SPECIFICATION Spec\nINVARIANT ChartSound\nINVARIANT AcceptIffMember\nPROPERTY ChartMonotone\nCHECK_DEADLOCK FALSE\n",
                            env={"EARLEY_CFG": ef}, workers=NPROC, timeout=2400, xmx="6g", check=False)
            if r.rc != 0 or r.violated:
                raise tlc.TlcError("Earley.tla: acceptance and Kleene membership disagree or TLC failed:\n" + r.out[-2000:])
            chk.add_tlc(r)
            chk.cov["earley_model_states"] = r.distinct
            cases = []
            for g in f1:
                cases.append({"g": g, "L": P["L"], "family": "tiny2"})
            for g in gen["f2"]:
                cases.append({"g": g, "L": P["L"], "family": "random3"})
            chk.cov["family3_grammars"] = len(gen["f3"])
            for g in gen["f3"]:
                cases.append({"g": g, "L": P["L"], "family": "nullable-chain"})
            for name in CAT:
                L = min(P["Lcat"], CAT_L.get(name, P["Lcat"]))
                cases.append({"g": pj.grammar_to_json(catalogue.GRAMMARS[name]), "L": L, "family": "cat-" + name})
            for k, c in enumerate(cases):
                c["idx"] = k + 1
        else:
            cases = cases_in
        fam = {c["idx"]: c["family"] for c in cases}
        results = pmap("c10", [{"cases": c} for c in chunks(cases, NPROC * 4)], timeout=1800)
        obs = []
        for res in results:
            if "cases" not in res:
                raise RuntimeError("C10 driver failed: %r" % (res,))
            obs.extend(res["cases"])
        # balance shards by row count
        obs.sort(key=lambda c: -len(c["rows"]))
        shards = [[] for _ in range(NPROC)]
        for k, c in enumerate(obs):
            shards[k % NPROC].append(c)
        rs = tmap(lambda kc: judge(wd, kc[0], kc[1]), [(k, s) for k, s in enumerate(shards) if s])
        byidx = {c["idx"]: c for c in obs}
        judged = 0
        for r in rs:
            chk.add_tlc(r)
            for _, idx, nrows, members, nbad, adm in r.tuples("CASE"):
                judged += 1
                chk.cov["evaluations"] += nrows
                chk.note("member_rows", members)
                if members and members < nrows:
                    chk.nontrivial(idx)
                if not adm and not fam[idx].startswith("cat-"):
                    raise RuntimeError("inadmissible grammar generated")
            for _, idx, j, clause in r.tuples("MISMATCH"):
                row = byidx[idx]["rows"][j - 1]
                g = pj.json_to_grammar(byidx[idx]["g"])
                sig = {"clause": clause, "api": row["api"], "exc": row["exc"].split(":")[0],
                       "start_alternatives": "many" if len(g["<start>"]) > 1 else "one",
                       "nt_is_start": row["nt"] == "<start>"}
                chk.mismatch(sig, {"grammar": g, "g": byidx[idx]["g"], "L": byidx[idx]["L"], "nt": row["nt"],
                                   "string": pj.text(row["s"]), "row": row, "family": fam[idx]})
        if judged != len(obs):
            raise RuntimeError("TLC judged %d of %d grammars" % (judged, len(obs)))
        chk.cov["traces_validated_against_impl"] = judged
        chk.cov["grammars"] = len(obs)
        for c in obs[:2]:
            chk.sample({"grammar": pj.json_to_grammar(c["g"]), "L": c["L"],
                        "rows": [{"nt": r["nt"], "s": pj.text(r["s"]), "api": r["api"], "res": r["res"]} for r in c["rows"][:6]]})
    finally:
        shutil.rmtree(wd, ignore_errors=True)


def main(tier):
    chk = Check("C10", tier)
    P = TIERS[tier]
    chk.cov["rule"] = ("grammars: TLC enumerates all admissible (well-formed, finitely ambiguous, productive, reachable) grammars "
                       "over {<start>,<A>} with <=2 alternatives of <=2 symbols (quick: a seeded sample of %s of them), plus %d random "
                       "3-nonterminal grammars and %d catalogue grammars; strings: all strings up to length %d over the grammar's "
                       "alphabet, for every nonterminal; a grammar is non-trivial when it has both members and non-members among the rows"
                       % (P["f1_sample"] or "all", P["nrandom"], len(CAT), P["L"]))
    chk.assumptions = ["membership oracle: Kleene iteration in TLA+ (Grammars!LangUpTo), exact for strings up to the bound",
                       "at most 20 trees per parse are examined"]
    run(chk)
    return chk.finish(exhaustive=(tier == "thorough"))


def replay(path):
    with open(path) as f:
        rec = json.load(f)
    chk = Check("C10", "quick")
    cases = [{"idx": k + 1, "g": c["g"], "L": c["L"], "family": c.get("family", "replay"),
              "strings": [c["string"]]} for k, c in enumerate(rec["cases"])]
    run(chk, cases_in=cases)
    return chk.finish()
