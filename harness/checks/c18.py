"""C18 -- check, parse, repair and mutate agree with the constraint and with each other.
Sessions over one ISLaSolver object are driven with TLC-enumerated trees (valid and semantically
invalid), their strings and syntactically invalid strings; every call is judged by TLC (spec/MC_C18.tla)
against membership (Grammars!LangUpTo) and IslaSemantics!Sat."""
import json
import os
import random
import shutil

from harness import catalogue, formulas as F, tlc
from harness import project as pj
from harness.checks import c03
from harness.common import Check, chunks, pmap, tmap, NPROC
from harness.formulas import FA, EX, AND, OR, NOT, SMT, PRED, COUNT, M, MCH, MNT
from harness.smt import A, I, S, V

PID = "C18"
TIERS = {"quick": dict(plan={"ASSGN2": (7, 22, 60), "NUM": (6, 14, 50), "RIGHTREC": (6, 14, 40), "AMBIG": (5, 12, 9), "NULLCHAIN": (5, 16, 40), "WIDE": (3, 90, 6)}, ncheck=30, nrepair=4, nmutate=3, nform=5),
         "thorough": dict(plan={"ASSGN2": (7, 30, 300), "NUM": (6, 16, 200), "RIGHTREC": (7, 18, 80), "XMLISH": (6, 26, 150), "AMBIG": (5, 12, 9), "NULLCHAIN": (5, 16, 40), "WIDE": (3, 90, 6)},
                          ncheck=120, nrepair=15, nmutate=10, nform=12)}


def lit(v, s):
    return SMT(A("=", V(v), S(s)))


def session_formulas(name):
    fs = []
    if name.startswith("ASSGN"):
        fs = [FA("<assgn>", "x", NOT(SMT(A("=", V("l"), V("r")))), mexpr=M(MNT("<var>", "l"), MCH(" := "), MNT("<rhs>", "r"))),
              EX("<var>", "v", lit("v", "a")),
              FA("<digit>", "d", lit("d", "1")),
              FA("<assgn>", "a", EX("<assgn>", "d", AND(PRED("before", "d", "a"), FA("<var>", "r", EX("<var>", "l", SMT(A("=", V("l"), V("r"))), inn="d"), inn="a")))),
              COUNT("start", "<assgn>", 2),
              SMT(A(">", A("str.len", V("start")), I(6))),
              FA("<rhs>", "r", OR(lit("r", "a"), lit("r", "0"))),
              OR(EX("<digit>", "d", lit("d", "0")), FA("<var>", "v", lit("v", "b")))]
    elif name == "NUM":
        fs = [FA("<digits>", "d", SMT(A("<", A("str.to.int", V("d")), I(20)))), EX("<sign>", "s", lit("s", "-")),
              FA("<digit>", "d", NOT(lit("d", "0"))), SMT(A("=", A("str.len", V("start")), I(2))),
              FA("<int>", "x", SMT(A(">=", A("str.len", V("x")), I(2)))), COUNT("start", "<digit>", 2)]
    elif name == "RIGHTREC":
        fs = [FA("<I>", "i", lit("i", "x")), EX("<I>", "i", lit("i", "y")), COUNT("start", "<I>", 2),
              FA("<I>", "a", FA("<I>", "b", OR(PRED("same_position", "a", "b"), NOT(SMT(A("=", V("a"), V("b"))))))),
              SMT(A("<=", A("str.len", V("start")), I(3)))]
    elif name == "XMLISH":
        fs = [FA("<tree>", "t", SMT(A("=", V("o"), V("c"))), mexpr=M(MCH("("), MNT("<id>", "o"), MCH(")"), MNT("<inner>"), MCH("(/"), MNT("<id>", "c"), MCH(")"))),
              EX("<text>", "t", lit("t", "x")), FA("<id>", "i", lit("i", "a")), COUNT("start", "<tree>", 2)]
    elif name == "NULLCHAIN":
        fs = [SMT(A("<=", A("str.len", V("start")), I(3))), EX("<b>", "b", lit("b", "x")), FA("<c>", "c", lit("c", "")),
              FA("<a>", "a", SMT(A("<=", A("str.len", V("a")), I(1))))]
    elif name == "WIDE":
        fs = [FA("<d>", "x", lit("x", "0")), EX("<d>", "x", lit("x", "1")), COUNT("start", "<d>", 40),
              FA("<row>", "r", FA("<d>", "x", lit("x", "0"), inn="r"))]
    elif name == "AMBIG":
        # constraints that tell the derivations of one string apart (the grammar is ambiguous)
        fs = [FA("<A>", "x", SMT(A("=", A("str.len", V("r")), I(1))), mexpr=M(MNT("<A>", "l"), MNT("<A>", "r"))),
              FA("<A>", "x", SMT(A("=", A("str.len", V("l")), I(1))), mexpr=M(MNT("<A>", "l"), MNT("<A>", "r"))),
              COUNT("start", "<A>", 3), SMT(A("=", A("str.len", V("start")), I(2))), FA("<A>", "x", SMT(A("<=", A("str.len", V("x")), I(2))))]
    return [F.set_num_bounds(f) for f in fs]


def nonmembers(rnd, strings, alphabet, n):
    out = set()
    pool = list(strings)
    for _ in range(20 * n):
        if len(out) >= n or not pool:
            break
        s = rnd.choice(pool)
        k = rnd.randrange(3)
        if k == 0 and s:
            p = rnd.randrange(len(s))
            s2 = s[:p] + s[p + 1:]
        elif k == 1:
            p = rnd.randrange(len(s) + 1)
            s2 = s[:p] + rnd.choice(alphabet) + s[p:]
        else:
            p = rnd.randrange(max(1, len(s)))
            s2 = s[:p] + rnd.choice(alphabet) + s[p + 1:]
        out.add(s2)
    return sorted(out)


def run(chk, cases):
    wd = tlc.workdir("c18")
    try:
        results = pmap("c18", cases, timeout=600)
        ok = []
        for c, r in zip(cases, results):
            if r.get("_timeout") or "rows" not in r:
                if "_driver_error" in r:
                    chk.mismatch({"clause": "session-setup-raised", "exc": r["_driver_error"].split(":")[0]}, {"case": c["text"], "error": r})
                chk.cov["unjudged"] += 1
                continue
            ok.append(dict(c, rows=r["rows"]))

        def judge(kc):
            k, cs = kc
            w = os.path.join(wd, "j%d" % k)
            os.makedirs(w)
            cf = os.path.join(w, "case.json")
            json.dump({"cases": [{kk: v for kk, v in c.items() if kk in ("id", "g", "phi", "L", "trees", "rows", "unamb")} for c in cs]}, open(cf, "w"))
            return tlc.run_tlc("MC_C18", "INIT Init\nNEXT Next\nINVARIANT Judged\nCHECK_DEADLOCK FALSE\n", env={"CASE_FILE": cf}, wd=w, xmx="3g", timeout=3000)
        byid = {c["id"]: c for c in ok}
        n = 0
        for r in tmap(judge, list(enumerate(chunks(ok, NPROC)))):
            chk.add_tlc(r)
            for _, cid, nrows, nok, nun, nsat in r.tuples("CASE"):
                n += 1
                c = byid[cid]
                chk.cov["evaluations"] += nrows
                chk.cov["traces_validated_against_impl"] += nok
                chk.cov["unjudged"] += nun
                if 0 < nsat < len(c["trees"]):
                    chk.nontrivial(cid)
            for _, cid, j, clause in r.tuples("MISMATCH"):
                c = byid[cid]
                row = c["rows"][j - 1]
                sig = {"clause": clause, "op": row["op"], "exc": row["res"].split(":")[1].strip() if row["res"].startswith("X:") else ""}
                chk.mismatch(sig, {"grammar": c["grammar"], "constraint": c["text"], "row": row, "string": pj.text(row["s"]),
                                   "input_tree": pj.jyield(c["trees"][row["t"] - 1]) if row["t"] else None, "case": {k: v for k, v in c.items() if k != "rows"}})
        if n != len(ok):
            raise RuntimeError("TLC judged %d of %d sessions" % (n, len(ok)))
        for c in ok[:3]:
            chk.sample({"grammar": c["grammar"], "constraint": c["text"],
                        "rows": [{"op": r["op"], "input": pj.text(r["s"]) or (pj.jyield(c["trees"][r["t"] - 1]) if r["t"] else ""), "res": r["res"][:40]} for r in c["rows"][:: max(1, len(c["rows"]) // 6)][:6]]})
    finally:
        shutil.rmtree(wd, ignore_errors=True)


def build(chk):
    P = TIERS[chk.tier]
    rnd = random.Random(chk.seed)
    wd = tlc.workdir("c18g")
    cases = []
    try:
        for name, (depth, nodes, cap) in P["plan"].items():
            g = c03.grammar_of(name)
            trees = c03.gen_trees(chk, wd, name, g, depth, nodes, 10 ** 6)     # all trees: "a parse of s" ranges over them
            L = min(max(len(pj.jyield(t)) for t in trees), 10)
            strings = sorted({pj.jyield(t) for t in trees if len(pj.jyield(t)) <= L})
            alphabet = sorted({ch for s in strings for ch in s} | {"b"}) or ["a"]
            for f in session_formulas(name)[: P["nform"]]:
                idx = list(range(len(trees)))
                rnd.shuffle(idx)
                ss = rnd.sample(strings, min(len(strings), P["ncheck"])) + nonmembers(rnd, strings, alphabet, P["ncheck"] // 3)
                cases.append({"grammar": name, "g": pj.grammar_to_json(g), "text": F.text(f), "phi": f, "L": L, "trees": trees, "unamb": name != "AMBIG",
                              "check_trees": idx[: P["ncheck"]], "strings": [s for s in ss if len(s) <= L],
                              "repair_trees": idx[: P["nrepair"]], "mutate_trees": idx[P["nrepair"]: P["nrepair"] + P["nmutate"]],
                              "seed": rnd.randrange(1000)})
    finally:
        shutil.rmtree(wd, ignore_errors=True)
    for i, c in enumerate(cases):
        c["id"] = i + 1
    return cases


def main(tier):
    chk = Check(PID, tier)
    chk.cov["rule"] = ("sessions: one solver per (grammar, constraint); inputs: TLC-enumerated derivation trees (all trees up to the bound, so every parse of a "
                       "string up to the length bound is among them), their strings, and strings obtained by deleting/inserting/replacing one character; "
                       "calls: check(tree), check(str), parse(str), repair(tree), mutate(tree); an evaluation = one call judged; non-trivial = session "
                       "whose constraint has both satisfying and violating trees")
    chk.assumptions = ["UnknownResultError from check(tree) and calls over the per-call cap are unjudged", "repair: only tree inputs"]
    cases = build(chk)
    chk.cov["sessions"] = len(cases)
    run(chk, cases)
    return chk.finish()


def replay(path):
    rec = json.load(open(path))
    chk = Check(PID, "quick")
    cases = [dict(c["case"], id=i + 1) for i, c in enumerate(rec["cases"])]
    run(chk, cases)
    return chk.finish()
