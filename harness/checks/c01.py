"""C01 -- every solver solution is grammar-valid and satisfies the constraint.
Real ISLaSolver objects are driven through sequences of solve() calls with the hooks on; TLC validates
each recorded trace against spec/SolverTrace.tla; at every Return the returned tree must be closed, a
ValidTree of the grammar rooted at the start symbol, and satisfy the constraint under
IslaSemantics!Sat (not under ISLa's own evaluator)."""
import json
import random
import shutil

from harness import tlc
from harness.checks import solvercommon as sc
from harness.common import Check

TIERS = {"quick": dict(plan={"ASSGN2": 10, "XMLISH": 6, "NUM": 5, "NULLABLE": 4, "CSVISH": 3, "LENGTHS": 0}, calls=6, timeout=40, per=1),
         "thorough": dict(plan={"ASSGN2": 30, "ASSGN": 15, "XMLISH": 20, "NUM": 15, "NULLABLE": 10, "CSVISH": 10, "LENGTHS": 6, "AMBIG": 4},
                          calls=16, timeout=90, per=2)}
PID = "C01"


def run(chk, cases, timeout):
    wd = tlc.workdir("c01")
    try:
        for c in cases:
            c["data"] = True          # record the data of every step as well (diagnostic pass below)
        traces = sc.record(chk, cases, timeout)
        for t in traces:
            if t["ctor_error"]:
                chk.cov["unjudged"] += 1
                chk.note("constructor_rejected_case")
        verdicts = sc.validate(chk, wd, traces)
        bycase = {t["id"]: t for t in traces}
        for cid, (verdict, steps, mism, state) in verdicts.items():
            t = bycase[cid]
            c = t["case"]
            nret = sum(1 for e in t["events"][:steps] if e["ev"] == "Return")
            chk.cov["evaluations"] += nret
            chk.note("solve_calls", sum(1 for e in t["events"] if e["ev"] == "Call"))
            if nret and c["phi"].get("op") not in ("true", "skip"):
                chk.nontrivial(cid)
            if verdict == "accepted":
                chk.cov["traces_validated_against_impl"] += 1
                continue
            for step, ev, clauses in mism:
                own = [cl for cl in clauses if cl in sc.C01_CLAUSES]
                if own:
                    e = t["events"][step - 1]
                    for cl in own:
                        txt = c.get("text") or ""
                        chk.mismatch({"clause": cl, "family": c["fam"], "grammar": c["grammar"],
                                      # a semantic predicate in a negative position (a root-cause coordinate of a known finding)
                                      "negated_count": "not (count(" in txt, "numeric": "int " in txt},
                                     {"case": c, "returned": t["solutions"], "bad_tree": e.get("tree"), "step": step})
                else:
                    # outcome / protocol problems are C02's subject; counted here
                    chk.note("traces_rejected_for_other_reasons")
        sc.search_conformance(chk, wd, traces)
        for t in traces[:: max(1, len(traces) // 4)][:4]:
            chk.sample({"constraint": t["case"]["text"], "grammar": t["case"]["grammar"], "settings": t["case"]["settings"],
                        "outcomes": t["solutions"], "events": len(t["events"])})
    finally:
        shutil.rmtree(wd, ignore_errors=True)


def main(tier):
    chk = Check(PID, tier)
    P = TIERS[tier]
    chk.cov["rule"] = ("cases = (grammar, constraint from the hand-written catalogue incl. match expressions, count, numeric quantifiers, or schema-generated; "
                       "settings drawn from the grid free/SMT instantiations x optimized Z3 queries x unique trees x insertion methods x unsat support); "
                       "%d solve() calls each; one evaluation = one returned tree judged by TLC (Closed, ValidTree, root, IslaSemantics!Sat); "
                       "non-trivial = case with a real constraint and at least one solution" % P["calls"])
    chk.assumptions = ["cases exceeding the wall-clock cap are unjudged (the property says nothing about speed)",
                       "the constraint AST is the generator's own (not the parser's)", "str.to.int only on unsigned numerals"]
    rnd = random.Random(chk.seed)
    cases = sc.formula_cases(chk, P["plan"], P["calls"], rnd, P["per"])
    chk.cov["cases"] = len(cases)
    run(chk, cases, P["timeout"])
    return chk.finish()


def replay(path):
    rec = json.load(open(path))
    chk = Check(PID, "quick")
    cases = [dict(c["case"], id=i + 1) for i, c in enumerate(rec["cases"])]
    run(chk, cases, 120)
    return chk.finish()


def selftest():
    """the data refinement (spec/SolverData.tla) is bound to what was recorded: corrupted data of a real run must
    break the corresponding rule, the original must break none"""
    import copy
    from harness import catalogue, project as pj
    from harness.formulas import EX, SMT
    from harness.smt import A, S, V
    chk = Check(PID, "quick")
    g = pj.grammar_to_json(catalogue.ASSGN2)
    base = {"grammar": "ASSGN2", "g": g, "fam": "selftest", "text": 'exists <var> v in start: (= v "a")', "data": True,
            "phi": EX("<var>", "v", SMT(A("=", V("v"), S("a")))), "settings": {"max_number_free_instantiations": 3, "enforce_unique_trees_in_queue": True}, "calls": 4, "seed": 1, "id": 1}
    wd = tlc.workdir("c01self")
    try:
        t = sc.record(chk, [base], 120)[0]
        ev = t["data"]["events"]
        enq = [i for i, e in enumerate(ev) if e["ev"] == "Admit" and e["kind"] == "Enqueue"]
        pops = [i for i, e in enumerate(ev) if e["ev"] == "Pop" and i > 0 and len(ev[i - 1]["q"]) >= 2]
        assert enq and pops, [e["ev"] for e in ev]
        variants, expect = [t], {1: None}

        def mutate(rule, fn):
            v = copy.deepcopy(t)
            v["id"] = v["data"]["id"] = len(variants) + 1
            fn(v["data"]["events"])
            variants.append(v)
            expect[v["id"]] = rule

        def worst_first(e):
            # the state popped at pops[0] gets the worst rank in the snapshot before it
            q = e[pops[0] - 1]["q"]
            for x in q:
                x["r"] = 99 if x["s"] == e[pops[0]]["sid"] else 0
        mutate("pop-not-cheapest", worst_first)
        mutate("enqueued-not-a-derivation-tree", lambda e: e[enq[0]]["tree"]["ch"].append(dict(e[enq[0]]["tree"], ch=[], id=777)))
        mutate("enqueue-queue-mismatch", lambda e: e[enq[0]]["q"].pop())
        mutate("pop-of-a-state-that-is-not-queued", lambda e: e[pops[0]].__setitem__("sid", 4242))
        mutate("enqueued-although-tree-in-hash-set", lambda e: e.insert(enq[0] + 1, copy.deepcopy(dict(e[enq[0]], sid=4243, q=e[enq[0]]["q"] + [{"s": 4243, "r": 0}]))))
        sc.search_conformance(chk, wd, variants)
        rep = chk.cov["search_conformance"]
        ok = True
        # per-case verdicts are aggregated: every expected rule must have been reported exactly once, and no other
        wanted = sorted(r for r in expect.values() if r)
        got = sorted(r for r, n in rep["broken_rules"].items() for _ in range(n))
        print("selftest SolverData: expected %s" % wanted)
        print("selftest SolverData: reported %s" % got)
        # (a corrupted step may break further rules at the following step: only the original must break none)
        ok = all(r in got for r in wanted) and rep["cases_with_broken_rules"] == len(wanted)
        return 0 if ok else 2
    finally:
        shutil.rmtree(wd, ignore_errors=True)
