"""C01 -- every solver solution is grammar-valid and satisfies the constraint.
Real ISLaSolver objects are driven through sequences of solve() calls with the hooks on; TLC validates
each recorded trace against spec/SolverTrace.tla; at every Return the returned tree must be closed, a
ValidTree of the grammar rooted at the start symbol, and satisfy the constraint under
IslaSemantics!Sat (not under ISLa's own evaluator)."""
import json
import random
import shutil

from harness import tlc
from harness.checks import solvercommon as sc
from harness.common import Check

TIERS = {"quick": dict(plan={"ASSGN2": 10, "XMLISH": 6, "NUM": 5, "NULLABLE": 4, "CSVISH": 3, "LENGTHS": 0}, calls=6, timeout=40, per=1),
         "thorough": dict(plan={"ASSGN2": 60, "ASSGN": 30, "XMLISH": 40, "NUM": 30, "NULLABLE": 20, "CSVISH": 20, "LENGTHS": 10, "AMBIG": 5},
                          calls=20, timeout=150, per=3)}
PID = "C01"


def run(chk, cases, timeout):
    wd = tlc.workdir("c01")
    try:
        traces = sc.record(chk, cases, timeout)
        for t in traces:
            if t["ctor_error"]:
                chk.cov["unjudged"] += 1
                chk.note("constructor_rejected_case")
        verdicts = sc.validate(chk, wd, traces)
        bycase = {t["id"]: t for t in traces}
        for cid, (verdict, steps, mism, state) in verdicts.items():
            t = bycase[cid]
            c = t["case"]
            nret = sum(1 for e in t["events"][:steps] if e["ev"] == "Return")
            chk.cov["evaluations"] += nret
            chk.note("solve_calls", sum(1 for e in t["events"] if e["ev"] == "Call"))
            if nret and c["phi"].get("op") not in ("true", "skip"):
                chk.nontrivial(cid)
            if verdict == "accepted":
                chk.cov["traces_validated_against_impl"] += 1
                continue
            for step, ev, clauses in mism:
                own = [cl for cl in clauses if cl in sc.C01_CLAUSES]
                if own:
                    e = t["events"][step - 1]
                    for cl in own:
                        chk.mismatch({"clause": cl, "family": c["fam"], "grammar": c["grammar"]},
                                     {"case": c, "returned": t["solutions"], "bad_tree": e.get("tree"), "step": step})
                else:
                    # outcome / protocol problems are C02's subject; counted here
                    chk.note("traces_rejected_for_other_reasons")
        for t in traces[:: max(1, len(traces) // 4)][:4]:
            chk.sample({"constraint": t["case"]["text"], "grammar": t["case"]["grammar"], "settings": t["case"]["settings"],
                        "outcomes": t["solutions"], "events": len(t["events"])})
    finally:
        shutil.rmtree(wd, ignore_errors=True)


def main(tier):
    chk = Check(PID, tier)
    P = TIERS[tier]
    chk.cov["rule"] = ("cases = (grammar, constraint from the hand-written catalogue incl. match expressions, count, numeric quantifiers, or schema-generated; "
                       "settings drawn from the grid free/SMT instantiations x optimized Z3 queries x unique trees x insertion methods x unsat support); "
                       "%d solve() calls each; one evaluation = one returned tree judged by TLC (Closed, ValidTree, root, IslaSemantics!Sat); "
                       "non-trivial = case with a real constraint and at least one solution" % P["calls"])
    chk.assumptions = ["cases exceeding the wall-clock cap are unjudged (the property says nothing about speed)",
                       "the constraint AST is the generator's own (not the parser's)", "str.to.int only on unsigned numerals"]
    rnd = random.Random(chk.seed)
    cases = sc.formula_cases(chk, P["plan"], P["calls"], rnd, P["per"])
    chk.cov["cases"] = len(cases)
    run(chk, cases, P["timeout"])
    return chk.finish()


def replay(path):
    rec = json.load(open(path))
    chk = Check(PID, "quick")
    cases = [dict(c["case"], id=i + 1) for i, c in enumerate(rec["cases"])]
    run(chk, cases, 120)
    return chk.finish()
