"""C05 -- ground SMT-LIB atoms are judged exactly as Z3 judges them (three-way comparison:
ISLa vs Z3 decisive; specification vs Z3 mismatch = machinery failure)."""
import json
import os
import shutil

from harness import smt, tlc
from harness.common import Check, chunks, pmap, tmap, NPROC

TIERS = {"quick": 3.0, "thorough": 14.0}
CFG = "INIT Init\nNEXT Next\nINVARIANT Judged\nINVARIANT Count\nCHECK_DEADLOCK FALSE\n"


def classify(term):
    ops = smt.ops_in(term)
    return sorted(ops)


def judge(wd, k, cases):
    w = os.path.join(wd, "j%d" % k)
    os.makedirs(w)
    path = os.path.join(w, "cases.json")
    json.dump({"cases": cases}, open(path, "w"))
    return tlc.run_tlc("MC_C05", CFG, env={"CASE_FILE": path}, wd=w, xmx="2g", timeout=3000)


def signature(c, routes):
    """root-cause coordinates of a mismatch: which operator family, which kind of failure"""
    ops = smt.ops_in(c["term"])
    obs = sorted({c[r] for r in ("i1", "i2", "i3") if c[r] not in ("NA", c["z"])})
    kind = obs[0] if obs else "?"
    if not kind.startswith("X:"):
        kind = "wrong-answer" if kind in ("T", "F") else "unknown-verdict"
    feature = "other"
    order = ["str.to.int", "re.comp", "re.range", "re.loop", "re.^", "re.all", "re.allchar", "re.inter", "re.diff", "re.none",
             "str.at", "str.substr", "str.to_code", "str.from_code", "str.from_int", "str.replace_all", "str.replace",
             "str.indexof", "str.contains", "str.prefixof", "str.suffixof", "str.<=", "str.is_digit", "div", "mod", "abs", "^",
             "ite", "xor", "=>", "distinct", "re.*", "re.+", "re.opt", "re.union", "re.++", "str.to_re", "str.in_re",
             "str.++", "str.len", "-", "+", "*"]
    for o in order:
        if o in ops:
            feature = o
            break
    sig = {"feature": feature, "kind": kind}
    if feature == "str.to.int":
        def signed(t):
            if t["k"] == "app":
                if t["f"] == "str.to.int" and t["args"][0]["k"] == "str" and t["args"][0]["s"][:1] in ([43], [45]):
                    return True
                return any(signed(a) for a in t["args"])
            return False
        sig["signed_numeral"] = signed(c["term"])
    return sig


def run(chk, cases_in=None):
    wd = tlc.workdir("c05")
    try:
        if cases_in is None:
            g = smt.grid(chk.seed, TIERS[chk.tier])
            cases = [{"id": i + 1, "fam": f, "term": t, "route3": i % 3 == 0 or f in ("two-var-nested", "re-range-special")} for i, (f, t) in enumerate(g)]
        else:
            cases = cases_in
        chk.cov["grid_terms"] = len(cases)
        import time
        t0 = time.time()
        results = pmap("c05", [{"cases": c} for c in chunks(cases, NPROC * 6)], timeout=900)
        chk.cov["impl_phase_s"] = round(time.time() - t0, 1)
        recs = []
        for res in results:
            if "cases" not in res:
                raise RuntimeError("C05 driver failed: %r" % (res,))
            recs.extend(res["cases"])
        atoms = []
        for r in recs:
            if "skip" in r:
                chk.note("skipped_" + r["skip"].split(":")[0].replace(" ", "_"))
                continue
            for k in ("i3",):
                if r[k] in ("X:ParseCancellationException", "X:SyntaxError"):
                    chk.note("route3_not_parsed")
                    r[k] = "NA"
            atoms.append(r)
        byid = {r["id"]: r for r in atoms}
        t0 = time.time()
        rs = tmap(lambda kc: judge(wd, kc[0], kc[1]), list(enumerate(chunks(atoms, NPROC))))
        chk.cov["tlc_phase_s"] = round(time.time() - t0, 1)
        done = 0
        model_bad = []
        for r in rs:
            chk.add_tlc(r)
            for _, n in r.tuples("DONE"):
                done += n
            for _, cid, verdict, detail in r.tuples("CASE"):
                c = byid[cid]
                if verdict == "UNJUDGED":
                    chk.cov["unjudged"] += 1
                elif verdict == "MODEL":
                    model_bad.append((smt.to_smt2(c["term"]), detail, c["z"]))
                elif verdict == "MISMATCH":
                    sig = signature(c, detail)
                    chk.mismatch(sig, {"smt2": smt.to_smt2(c["term"]), "term": c["term"], "fam": c["fam"], "z3": c["z"],
                                       "is_valid": c["i1"], "auto_eval": c["i2"], "evaluate": c["i3"]})
        if done != len(atoms):
            raise RuntimeError("TLC judged %d of %d atoms" % (done, len(atoms)))
        if model_bad:
            for m in model_bad[:20]:
                print("MODEL-DISAGREES-WITH-Z3", m)
            raise RuntimeError("spec/SmtLib.tla disagrees with Z3 on %d atoms: the specification must be corrected" % len(model_bad))
        chk.cov["evaluations"] = len(atoms)
        chk.cov["traces_validated_against_impl"] = len(atoms)
        for c in atoms:
            chk.nontrivial(smt.to_smt2(c["term"]))
        chk.cov["routes"] = {r: sum(1 for c in atoms if c[r] != "NA") for r in ("i1", "i2", "i3")}
        chk.cov["operators"] = sorted({o for c in atoms for o in smt.ops_in(c["term"])})
        for c in atoms[:: max(1, len(atoms) // 5)][:5]:
            chk.sample({"atom": smt.to_smt2(c["term"]), "z3": c["z"], "is_valid": c["i1"], "auto_eval": c["i2"], "evaluate": c["i3"]})
    finally:
        shutil.rmtree(wd, ignore_errors=True)


def main(tier):
    chk = Check("C05", tier)
    chk.cov["rule"] = ("operator x value grid (harness/smt.py): every SMT-LIB operator of the ISLa lexer over palettes of strings "
                       "(empty, newline, quote, backslash, non-ASCII, numerals, signed numerals), integers (-7..10, zero divisors) and "
                       "regular expressions (every constructor, depth <= 2); non-Boolean terms are compared with the value Z3 computes "
                       "and with a different one; distinct_nontrivial = distinct ground atoms judged")
    chk.assumptions = ["Z3 (z3-solver 4.11.2) is the reference, as the property says; spec/SmtLib.tla must agree with it on every atom (else exit 2)",
                       "atoms whose value depends on division by zero, or that Z3 cannot decide, are unjudged",
                       "route 3 (evaluate) is only used for atoms ISLa's concrete syntax can express"]
    run(chk)
    return chk.finish()


def replay(path):
    rec = json.load(open(path))
    chk = Check("C05", "quick")
    # replay re-judges the recorded ground atoms
    cases = [{"id": i + 1, "fam": c["fam"], "term": c["term"], "route3": True} for i, c in enumerate(rec["cases"])]
    run(chk, cases_in=cases)
    return chk.finish()
