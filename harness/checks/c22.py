"""C22 -- solving is reproducible for a fixed random seed.  Every case is run twice, each time in a
fresh interpreter (PYTHONHASHSEED=0, random.seed(case seed)); both traces must be behaviours of
spec/SolverTrace.tla and TLC (spec/MC_C22.tla) requires identical outcome sequences (same solution
trees, same exception kinds)."""
import json
import os
import random
import shutil

from harness import tlc
from harness.checks import solvercommon as sc
from harness.common import Check

PID = "C22"
TIERS = {"quick": dict(plan={"ASSGN2": 6, "XMLISH": 4, "NUM": 3, "CSVISH": 2}, calls=6, timeout=60),
         "thorough": dict(plan={"ASSGN2": 20, "ASSGN": 8, "XMLISH": 12, "NUM": 8, "NULLABLE": 5, "CSVISH": 6, "LENGTHS": 4}, calls=12, timeout=120)}


def outcomes(trace):
    out = []
    for e in trace["events"]:
        if e["ev"] == "Return":
            out.append({"k": "ret", "tree": e["tree"], "exc": ""})
        elif e["ev"] in ("Stop", "Timeout"):
            out.append({"k": e["ev"].lower(), "tree": {}, "exc": ""})
        elif e["ev"] == "Error":
            out.append({"k": "error", "tree": {}, "exc": e["exc"].split(":")[0]})
    return out


def run(chk, cases, timeout):
    wd = tlc.workdir("c22")
    try:
        runs = []
        for k in (0, 1):
            runs.append({t["id"]: t for t in sc.record(chk, cases, timeout, fresh=True)})
        both = [cid for cid in runs[0] if cid in runs[1] and not runs[0][cid]["ctor_error"] and not runs[1][cid]["ctor_error"]]
        # a Z3 query that ran into its wall-clock limit makes a run depend on machine load (z3_solve retries with
        # shuffled formulas and fresh random seeds): such pairs are not judged
        timing = [cid for cid in both if runs[0][cid].get("z3_unknowns", 0) or runs[1][cid].get("z3_unknowns", 0)]
        chk.cov["pairs_with_z3_timeouts_unjudged"] = len(timing)
        both = [cid for cid in both if cid not in timing]
        chk.cov["unjudged"] = len(cases) - len(both)
        v = [sc.validate(chk, wd, [runs[k][cid] for cid in both], tag="r%d" % k) for k in (0, 1)]
        pairs = [{"id": cid, "a": outcomes(runs[0][cid]), "b": outcomes(runs[1][cid])} for cid in both]
        cf = os.path.join(wd, "pairs.json")
        json.dump({"pairs": pairs}, open(cf, "w"))
        r = tlc.run_tlc("MC_C22", "INIT Init\nNEXT Next\nINVARIANT Judged\nCHECK_DEADLOCK FALSE\n", env={"CASE_FILE": cf}, xmx="3g", timeout=1500)
        chk.add_tlc(r)
        n = 0
        for _, cid, div, ncalls in r.tuples("PAIR"):
            n += 1
            c = runs[0][cid]["case"]
            chk.cov["evaluations"] += ncalls
            if any(s and not s.startswith("!") for s in runs[0][cid]["solutions"]):
                chk.nontrivial(cid)
            if div == -1 and v[0][cid][0] == "accepted" and v[1][cid][0] == "accepted":
                chk.cov["traces_validated_against_impl"] += 2
                continue
            if div != -1:
                chk.mismatch({"clause": "runs-differ", "grammar": c["grammar"], "unsat_support": bool(c["settings"].get("activate_unsat_support"))},
                             {"case": c, "run_a": runs[0][cid]["solutions"], "run_b": runs[1][cid]["solutions"], "first_difference_at_call": div})
            else:
                chk.note("pairs_with_a_trace_rejected_by_SolverTrace")
        if n != len(pairs):
            raise RuntimeError("TLC judged %d of %d pairs" % (n, len(pairs)))
        for cid in both[:3]:
            chk.sample({"constraint": runs[0][cid]["case"]["text"], "seed": runs[0][cid]["case"]["seed"], "run_a": runs[0][cid]["solutions"],
                        "run_b": runs[1][cid]["solutions"]})
    finally:
        shutil.rmtree(wd, ignore_errors=True)


def main(tier):
    chk = Check(PID, tier)
    P = TIERS[tier]
    chk.cov["rule"] = ("cases as in C01 (catalogue/schema constraints x random settings), each run twice in fresh interpreters with PYTHONHASHSEED=0 and "
                       "random.seed(seed); an evaluation = one pair of corresponding solve() calls; non-trivial = pair with at least one solution")
    chk.assumptions = ["the virtual clock is identical in both runs (wall-clock timeouts are outside the statement)",
                       "pairs in which some Z3 query hit its wall-clock limit (z3.unknown) are unjudged: the retry logic of z3_solve is timing-dependent by design",
                       "pairs in which a run exceeds the wall-clock cap are unjudged"]
    rnd = random.Random(chk.seed)
    cases = sc.formula_cases(chk, P["plan"], P["calls"], rnd)
    chk.cov["cases"] = len(cases)
    run(chk, cases, P["timeout"])
    return chk.finish()


def replay(path):
    rec = json.load(open(path))
    chk = Check(PID, "quick")
    run(chk, [dict(c["case"], id=i + 1) for i, c in enumerate(rec["cases"])], 200)
    return chk.finish()
