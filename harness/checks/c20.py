"""C20 -- library semantic predicates decide their documented relation on concrete trees.
TLC enumerates the closed argument trees of small numeric / text grammars (spec/MC_C20.tla, Gen); the
harness evaluates count, octal_to_decimal, crop, ljust, rjust, ljust_crop, rjust_crop and extend_crop
through SemanticPredicate.evaluate on them with small numeric arguments (given as literal, as closed
tree and as numeric variable); TLC judges every answer with Relations!SemPredStep.

Reading of the width predicates (isla_predicates.crop / just): crop(t, w) holds iff len(t) <= w; the
others hold iff len(t) = w; the repair text is  ljust: t + fill*;  rjust: fill* + t;  ljust_crop: the first w
characters of the left-justified text;  rjust_crop: the last w characters of the right-justified text;
extend_crop: ljust_crop with the first character of t as fill character;  crop: the first w characters."""
import json
import os
import random
import shutil

from harness import catalogue, tlc
from harness import project as pj
from harness.common import Check, chunks, pmap, tmap, NPROC

PID = "C20"
OCT = {"<start>": ["<octal_digits>", "<decimal_digits>"],
       "<octal_digits>": ["<octal_digit><octal_digits>", "<octal_digit>"], "<octal_digit>": list("01234567"),
       "<decimal_digits>": ["<decimal_digit><decimal_digits>", "<decimal_digit>"], "<decimal_digit>": list("0123456789")}
TEXT = {"<start>": ["<word>"], "<word>": ["<ch><word>", "<ch>"], "<ch>": ["a", "b", " "]}
PADS = {"<start>": ["<item>"], "<item>": ["<name><pad>"], "<name>": ["<ch><name>", "<ch>"], "<ch>": ["a", "b"],
        "<pad>": [" <pad>", ""]}
# siblings: the same nonterminal names with other productions (left-recursive, one more letter); their calls are
# interleaved with those of TEXT / OCT in one interpreter (state kept between calls must not leak across grammars)
TEXTL = {"<start>": ["<word>"], "<word>": ["<word><ch>", "<ch>"], "<ch>": ["a", "b", " ", "z"]}
OCTL = {"<start>": ["<octal_digits>", "<decimal_digits>"],
        "<octal_digits>": ["<octal_digits><octal_digit>", "<octal_digit>"], "<octal_digit>": list("01234567"),
        "<decimal_digits>": ["<decimal_digits><decimal_digit>", "<decimal_digit>"], "<decimal_digit>": list("0123456789")}
SIBLING = {"TEXT": "TEXTL", "OCT": "OCTL"}
KW = {"<start>": ["<kws>"], "<kws>": ["<kw><kws>", "<kw>"], "<kw>": ["if", "iff", "f"]}
GRAMMARS = {"OCT": OCT, "OCTL": OCTL, "TEXT": TEXT, "TEXTL": TEXTL, "PADS": PADS, "KW": KW, "CSVISH": catalogue.CSVISH, "ASSGN2": catalogue.ASSGN2,
            "XMLISH": catalogue.XMLISH}
COUNT_PLAN = {  # grammar -> roots, needles, depth, nodes
    "CSVISH": (["<start>", "<row>"], ["<row>", "<field>", "<rows>"], 8, 20),
    "ASSGN2": (["<start>", "<assgn>"], ["<assgn>", "<var>", "<digit>", "<rhs>"], 8, 28),
    "XMLISH": (["<start>", "<inner>"], ["<tree>", "<id>", "<text>"], 7, 26),
}
WIDTH_PLAN = {  # grammar -> roots, fill characters, depth, nodes
    "TEXT": (["<word>"], ["a", " ", "z"], 4, 9),
    "TEXTL": (["<word>"], ["z", " "], 4, 9),
    "PADS": (["<item>", "<pad>", "<name>"], [" ", "a"], 5, 12),
    "KW": (["<kws>", "<kw>"], ["f", "i"], 3, 6),
}
WIDTH3 = ["ljust", "rjust", "ljust_crop", "rjust_crop"]
WIDTH2 = ["crop", "extend_crop"]
TIERS = {
    "quick": dict(count_trees=30, count_nums=6, oct_depth=3, oct_nodes=6, oct_trees=110, oct_random=4, long_numerals=60,
                  width_trees=24, widths=[0, 1, 2, 3, 4, 6], cap=20, task_timeout=400),
    "thorough": dict(count_trees=500, count_nums=9, oct_depth=4, oct_nodes=9, oct_trees=10 ** 6, oct_random=8, long_numerals=3000,
                     width_trees=10 ** 6, widths=[0, 1, 2, 3, 4, 5, 6, 7, 9], cap=60, task_timeout=1500, deeper=(1, 3)),
}
GCFG = "INIT GInit\nNEXT GNext\nCHECK_DEADLOCK FALSE\n"
JCFG = "INIT JInit\nNEXT JNext\nINVARIANT Judged\nCHECK_DEADLOCK FALSE\n"


def gen(wd, name, roots, depth, nodes):
    w = os.path.join(wd, "gen-" + name)
    os.makedirs(w, exist_ok=True)
    cf, out = os.path.join(w, "cfg.json"), os.path.join(w, "out.json")
    with open(cf, "w") as f:
        json.dump({"g": pj.grammar_to_json(GRAMMARS[name]), "roots": roots, "depth": depth, "nodes": nodes}, f)
    r = tlc.run_tlc("MC_C20", GCFG, env={"CASE_FILE": cf, "OUT_FILE": out}, wd=w, xmx="3g", timeout=900)
    with open(out) as f:
        d = json.load(f)["trees"]
    for n in d:
        d[n].sort(key=lambda t: json.dumps(t, sort_keys=True))
        for t in d[n]:
            pj.renumber(t)
    return r, d


def sample(rnd, xs, n):
    if len(xs) <= n:
        return list(xs)
    by = sorted(xs, key=pj.size)
    keep = by[:2] + by[-2:]
    return keep + rnd.sample(by[2:-2], max(0, n - len(keep)))


def numeral(nt, dg, s, ids=None):
    """tree of a digit string for the right-recursive numeral rules of OCT (used for numerals longer than
    those TLC enumerates)"""
    ids = ids if ids is not None else [0]

    def node(n, ch):
        ids[0] += 1
        return {"n": n, "nt": True, "open": False, "c": [], "id": ids[0], "ch": ch}

    def term(c):
        ids[0] += 1
        return {"n": "", "nt": False, "open": False, "c": pj.cps(c), "id": ids[0], "ch": []}
    if len(s) == 1:
        return node(nt, [node(dg, [term(s)])])
    return node(nt, [node(dg, [term(s[0])]), numeral(nt, dg, s[1:], ids)])


def build_rows(chk, wd):
    P = TIERS[chk.tier]
    dd, dn = P.get("deeper", (0, 0))      # thorough: text trees one level deeper
    jobs = [(n, v[0], v[2], v[3]) for n, v in COUNT_PLAN.items()] + [(n, v[0], v[2] + dd, v[3] + dn) for n, v in WIDTH_PLAN.items()]
    jobs.append(("OCT", ["<octal_digits>", "<decimal_digits>"], P["oct_depth"], P["oct_nodes"]))
    jobs.append(("OCTL", ["<octal_digits>", "<decimal_digits>"], P["oct_depth"], P["oct_nodes"]))
    gens = tmap(lambda j: gen(wd, *j), jobs, nthreads=min(NPROC, 5))
    trees = {}
    for j, (r, d) in zip(jobs, gens):
        chk.add_tlc(r)
        trees[j[0]] = d
        chk.cov.setdefault("trees_enumerated", {})[j[0]] = {n: len(v) for n, v in d.items()}
    rows = []
    rnd = random.Random(chk.seed * 4001 + 17)
    # ---- count -------------------------------------------------------------------------
    for name, (roots, needles, _, _) in COUNT_PLAN.items():
        for root in roots:
            for t in sample(rnd, trees[name][root], P["count_trees"]):
                for needle in needles:
                    if needle == root:
                        continue      # DESIGN.md 6.1
                    for k in range(P["count_nums"] + 1):
                        rows.append({"grammar": name, "name": "count", "num_as": ["str", "closed", "leaf"][(k + len(rows)) % 3],
                                     "a": {"t": t, "needle": needle, "numvar": False, "num": k}})
                    rows.append({"grammar": name, "name": "count", "num_as": "var", "a": {"t": t, "needle": needle, "numvar": True, "num": 0}})
    # ---- octal_to_decimal --------------------------------------------------------------
    ont, dnt = "<octal_digits>", "<decimal_digits>"
    for gname in ("OCT", "OCTL"):
        octs, decs = trees[gname][ont], trees[gname][dnt]
        for t in decs:
            pj.renumber(t, 500)          # the two arguments of one call carry disjoint ids
        dec_by = {pj.jyield(t): t for t in decs}

        def dec_tree(s):
            if s in dec_by:
                return dec_by[s]
            return numeral(dnt, "<decimal_digit>", s, [20000 + len(rows) * 40]) if gname == "OCT" else None

        def orow(o, d, ovar=False, dvar=False):
            a = {"ovar": ovar, "dvar": dvar, "ont": ont, "dnt": dnt}
            if not ovar:
                a["o"] = o
            if not dvar:
                if d is None:
                    return               # numeral not among the enumerated trees of the sibling grammar
                a["d"] = d
            rows.append({"grammar": gname, "name": "octal_to_decimal", "a": a})
        n_trees = P["oct_trees"] if gname == "OCT" else max(12, P["oct_trees"] // 5)
        for o in sample(rnd, octs, n_trees):
            s = pj.jyield(o)
            v = str(int(s, 8))           # choice of inputs only: pairs that are related, and near misses
            cands = [v, "0" + v, s, str(int(s, 8) + 1)] + [pj.jyield(rnd.choice(decs)) for _ in range(P["oct_random"])]
            for dstr in dict.fromkeys(cands):
                orow(o, dec_tree(dstr))
            orow(o, None, dvar=True)
        for d in sample(rnd, decs, n_trees):
            orow(None, d, ovar=True)
        if gname != "OCT":
            continue
        for k in range(P["long_numerals"]):
            n = rnd.choice([4, 5, 6, 8, 9])
            s = "".join(rnd.choice("01234567") for _ in range(n))
            o = numeral(ont, "<octal_digit>", s, [10000 + k * 40])
            v = int(s, 8)
            for dstr in (str(v), str(v + rnd.choice([1, 8, 64])), s if len(s) <= 9 else s[:9]):
                orow(o, dec_tree(dstr))
            orow(o, None, dvar=True)
            orow(None, dec_tree(str(rnd.randrange(0, 2 ** 27))), ovar=True)
    # ---- width predicates ----------------------------------------------------------------
    for name, (roots, fills, _, _) in WIDTH_PLAN.items():
        for root in roots:
            for t in sample(rnd, trees[name][root], P["width_trees"]):
                for pred in WIDTH3 + WIDTH2:
                    cs = fills if pred in WIDTH3 else [""]
                    for w in P["widths"]:
                        for c in cs:
                            rows.append({"grammar": name, "name": pred, "w_as": ["int", "closed"][(w + len(rows)) % 2],
                                         "a": {"t": t, "wvar": False, "w": w, "c": pj.cps(c)}})
                    rows.append({"grammar": name, "name": pred, "w_as": "var", "a": {"t": t, "wvar": True, "w": 0, "c": pj.cps(cs[0])}})
    for k, r in enumerate(rows):
        r["id"] = k + 1
    return rows


def arg_form(r):
    a = r["a"]
    if r["name"] == "count":
        return "numvar" if a["numvar"] else "num-" + r["num_as"]
    if r["name"] == "octal_to_decimal":
        return "octal-variable" if a["ovar"] else "decimal-variable" if a["dvar"] else "both-trees"
    return "width-variable" if a["wvar"] else "width-" + r["w_as"]


def describe(r):
    a = r["a"]
    if r["name"] == "count":
        return {"tree": pj.jyield(a["t"]), "root": a["t"]["n"], "needle": a["needle"], "num": "variable" if a["numvar"] else a["num"]}
    if r["name"] == "octal_to_decimal":
        return {"octal": "variable" if a["ovar"] else pj.jyield(a["o"]), "decimal": "variable" if a["dvar"] else pj.jyield(a["d"])}
    return {"tree": pj.jyield(a["t"]), "root": a["t"]["n"], "width": "variable" if a["wvar"] else a["w"], "fill": pj.text(a["c"])}


def judge(wd, k, gs, rows):
    w = os.path.join(wd, "j%d" % k)
    os.makedirs(w)
    cf = os.path.join(w, "case.json")
    with open(cf, "w") as f:
        json.dump({"gs": gs, "rows": rows}, f)
    return tlc.run_tlc("MC_C20", JCFG, env={"CASE_FILE": cf}, wd=w, xmx="3g", timeout=3000)


def run(chk, rows):
    P = TIERS[chk.tier]
    wd = tlc.workdir("c20")
    try:
        if rows is None:
            rows = build_rows(chk, wd)
        byid = {r["id"]: r for r in rows}
        tasks = []
        names = sorted({r["grammar"] for r in rows})
        inv = {v: k for k, v in SIBLING.items()}
        groups = [[n] + ([SIBLING[n]] if SIBLING.get(n) in names else []) for n in names if inv.get(n) not in names]
        for grp in groups:
            # calls for a grammar and its sibling alternate in blocks within one interpreter
            per = {n: chunks([r for r in rows if r["grammar"] == n], max(1, len([r for r in rows if r["grammar"] == n]) // 40)) for n in grp}
            merged, k = [], 0
            while any(per.values()):
                n = grp[k % len(grp)]
                k += 1
                if per[n]:
                    merged.extend(per[n].pop(0))
            for c in chunks(merged, max(2, len(merged) // 250)):
                tasks.append({"gs": {n: pj.grammar_to_json(GRAMMARS[n]) for n in grp}, "cap": P["cap"], "rows": c})
        results = pmap("c20", tasks, timeout=P["task_timeout"])
        gnames, gs, jrows, obs = [], [], [], {}
        for t, res in zip(tasks, results):
            if res.get("_timeout") or res.get("_crashed"):
                chk.cov["unjudged"] += len(t["rows"])
                chk.note("task_timeouts")
                continue
            if "rows" not in res:
                raise RuntimeError("C20 driver failed: %r" % (res,))
            for n, gj in t["gs"].items():
                if n not in gnames:
                    gnames.append(n)
                    gs.append(gj)
            for o in res["rows"]:
                r = byid[o["id"]]
                chk.note("calls_" + r["name"])
                if o["res"] == "timeout":
                    chk.cov["unjudged"] += 1
                    chk.note("call_timeouts")
                    continue
                obs[r["id"]] = o
                jrows.append({"id": r["id"], "gi": gnames.index(r["grammar"]) + 1, "name": r["name"], "a": r["a"], "obs": o["obs"]})
        shards = chunks(jrows, max(1, min(len(jrows), NPROC))) if jrows else []
        rs = tmap(lambda ks: judge(wd, ks[0], gs, ks[1]), list(enumerate(shards)))
        judged = 0
        verdicts = {}
        for res in rs:
            chk.add_tlc(res)
            for _, rid, why, holds, argsok in res.tuples("ROW"):
                judged += 1
                r, o = byid[rid], obs[rid]
                if not argsok:
                    raise RuntimeError("C20: generated arguments are not closed valid trees: %r" % (describe(r),))
                chk.cov["evaluations"] += 1
                form = arg_form(r)
                chk.note("answers_%s_%s" % (r["name"], o["obs"]["kind"]))
                verdicts.setdefault(r["name"], set()).add(holds)
                if holds in ("T", "F"):
                    chk.nontrivial((r["name"], holds, form))
                if why == "OK":
                    chk.cov["traces_validated_against_impl"] += 1
                elif why.startswith("undecided"):
                    # no verdict and no proposal (exception, "not ready"): the statement is about verdicts and proposals
                    chk.cov["unjudged"] += 1
                    key = "%s %s %s relation=%s %s" % (r["name"], why, form, holds, o["exc"].split(":")[0])
                    und = chk.cov.setdefault("undecided", {})
                    und[key] = und.get(key, 0) + 1
                    smp = chk.cov.setdefault("undecided_samples", {})
                    if key not in smp:
                        smp[key] = dict(describe(r), exc=o["exc"], grammar=r["grammar"])
                else:
                    sig = {"pred": r["name"], "clause": why, "args": form}
                    chk.mismatch(sig, dict(r, g=pj.grammar_to_json(GRAMMARS[r["grammar"]]), grammar_def=GRAMMARS[r["grammar"]],
                                           relation_holds=holds, observed=o, described=describe(r),
                                           proposed_string=pj.jyield(o["obs"]["t"]) if o["obs"].get("t") else None))
        if judged != len(jrows):
            raise RuntimeError("TLC judged %d of %d rows" % (judged, len(jrows)))
        chk.cov["relation_values_seen"] = {k: sorted(v) for k, v in verdicts.items()}
        seen = set()
        for j in jrows:
            k = (j["name"], j["obs"]["kind"])
            if k in seen or len(seen) >= 6 or j["obs"]["kind"] == "exc":
                continue
            seen.add(k)
            s = dict(describe(byid[j["id"]]), pred=j["name"], answer=j["obs"]["kind"])
            if j["obs"].get("t"):
                s["proposed"] = pj.jyield(j["obs"]["t"])
            if j["obs"].get("s"):
                s["proposed"] = pj.text(j["obs"]["s"])
            chk.sample(s)
    finally:
        shutil.rmtree(wd, ignore_errors=True)


def main(tier):
    chk = Check(PID, tier)
    P = TIERS[tier]
    chk.cov["rule"] = ("arguments: TLC enumerates all closed trees of the given root nonterminals up to a height/node bound for CSVISH/ASSGN2/XMLISH (count), "
                       "for octal and decimal numerals up to %d digits (octal_to_decimal; plus %d random numerals of 4-9 digits built by the harness) and for three "
                       "text grammars (words over {a,b,space}; name + nullable padding; multi-character keywords) (crop/ljust/rjust/ljust_crop/rjust_crop/"
                       "extend_crop); a seeded sample of them is combined with needles x counts 0..%d, with the related decimal numeral / leading-zero variant / "
                       "same digit string / successor / random numerals, and with widths %s x fill characters (one outside the grammar); numeric arguments "
                       "are passed as literal, closed tree, open leaf (count) and as numeric variable. One evaluation = one SemanticPredicate.evaluate "
                       "call judged by TLC; non-trivial = distinct (predicate, relation value, argument form)"
                       % (P["oct_depth"] - 1, P["long_numerals"], P["count_nums"], P["widths"]))
    chk.assumptions = ["crop(t,w) holds iff len(t) <= w; ljust/rjust/ljust_crop/rjust_crop/extend_crop hold iff len(t) = w (module docstring)",
                       "an exception or a 'not ready' answer is no verdict and no proposal: tallied under `undecided` with the relation's value, never a violation",
                       "count: needle = label of the argument's root is not generated (DESIGN.md 6.1); numbers stay below 2^31"]
    run(chk, None)
    return chk.finish(exhaustive=False)


def replay(path):
    with open(path) as f:
        rec = json.load(f)
    chk = Check(PID, "quick")
    rows = []
    for k, c in enumerate(rec["cases"]):
        r = {k2: c[k2] for k2 in ("grammar", "name", "a", "num_as", "w_as") if k2 in c}
        r["id"] = k + 1
        rows.append(r)
    run(chk, rows)
    return chk.finish()
