"""C04 -- structural predicates have their documented meaning for every pair of nodes.
TLC enumerates the trees (spec/MC_C04.tla, Gen), the implementation's truth tables are
recorded through evaluate(), and TLC judges every table entry against module Predicates."""
import json
import os
import shutil

from harness import tlc
from harness.common import Check, chunks, pmap, tmap, NPROC

PREDS = ([{"name": n, "extra": []} for n in
          ["before", "after", "inside", "direct_child", "same_position", "different_position", "consecutive"]]
         + [{"name": "nth", "extra": [k]} for k in (0, 1, 2, 3, 4)]
         + [{"name": "level", "extra": [o, nt]} for o in ("EQ", "GE", "LE", "GT", "LT") for nt in ("<A>", "<B>")])
BOUNDS = {"quick": (7, 5), "thorough": (8, 6)}
WALK = "CONSTANTS MaxPlain = %d MaxLab = %d WalkDepth = 4 WalkArity = 3\n"


def judge(wd, k, trees):
    path = os.path.join(wd, "case%d.json" % k)
    with open(path, "w") as f:
        json.dump({"preds": PREDS, "trees": trees}, f)
    cfg = (WALK % (1, 1)) + "INIT JInit\nNEXT JNext\nINVARIANT Judged\nCHECK_DEADLOCK FALSE\n"
    jw = os.path.join(wd, "j%d" % k)
    os.makedirs(jw, exist_ok=True)
    return tlc.run_tlc("MC_C04", cfg, env={"CASE_FILE": path}, wd=jw, xmx="2g")


def run(chk, trees_in=None):
    tier = chk.tier
    mp, ml = BOUNDS[tier]
    wd = tlc.workdir("c04")
    try:
        # 1. theorems about paths (state machine over pairs of paths)
        cfg = (WALK % (mp, ml)) + "INIT WInit\nNEXT WNext\nCHECK_DEADLOCK FALSE\n" + "".join(
            "INVARIANT %s\n" % i for i in ["WTrichotomy", "WIrreflexive", "WAsymmetric", "WDocOrder",
                                            "WAfterNotBelow", "WInsideRefl", "WChildInside"])
        r = tlc.run_tlc("MC_C04", cfg, workers=NPROC)
        chk.add_tlc(r)
        if r.violated:
            raise tlc.TlcError("path theorems violated in the specification itself: %s" % r.violated)
        chk.cov["path_theorem_states"] = r.distinct
        # 2. TLC enumerates the trees
        if trees_in is None:
            out = os.path.join(wd, "trees.json")
            cfg = (WALK % (mp, ml)) + "INIT GInit\nNEXT GNext\nCHECK_DEADLOCK FALSE\n"
            r = tlc.run_tlc("MC_C04", cfg, env={"OUT_FILE": out}, xmx="6g")
            chk.add_tlc(r)
            with open(out) as f:
                gen = json.load(f)
            trees = gen["plain"] + gen["lab"]
            chk.cov["plain_shapes"] = len(gen["plain"])
            chk.cov["labelled_trees"] = len(gen["lab"])
        else:
            trees = trees_in
        from harness import project as pj
        entries = []
        for k, t in enumerate(trees):
            pj.renumber(t)
            entries.append({"idx": k + 1, "t": t})
        # 3. the implementation's truth tables
        tasks = [{"preds": PREDS, "trees": c} for c in chunks(entries, NPROC * 4)]
        results = pmap("c04", tasks, timeout=900)
        obs = []
        for res in results:
            if "trees" not in res:
                raise RuntimeError("C04 driver failed: %r" % (res,))
            obs.extend(res["trees"])
        # 4. TLC judges
        shards = chunks(obs, NPROC)
        rs = tmap(lambda kc: judge(wd, kc[0], kc[1]), list(enumerate(shards)))
        byidx = {e["idx"]: e for e in obs}
        judged = 0
        for r in rs:
            chk.add_tlc(r)
            for tup in r.tuples("TREE"):
                _, idx, nrows, complete, defined, nbad = tup
                judged += 1
                if not complete:
                    raise RuntimeError("harness did not cover all node pairs of tree %d" % idx)
                chk.cov["evaluations"] += defined
                chk.nontrivial(idx)
            for tup in r.tuples("MISMATCH"):
                _, idx, p, q, k, exp, got = tup
                pr = PREDS[k - 1]
                rel = ("same" if p == q else "anc" if q[:len(p)] == p else "desc" if p[:len(q)] == q else "side")
                sig = {"pred": pr["name"], "got": {0: "false", 1: "true", 2: "exception"}[got], "relation": rel}
                if pr["name"] == "consecutive":
                    sig["lcp_root"] = not (p and q and p[0] == q[0])   # is the longest common prefix of the two paths the root?
                chk.mismatch(sig, {"tree": byidx[idx]["t"], "p": p, "q": q, "pred": pr,
                                   "expected": bool(exp), "observed": sig["got"]})
        if judged != len(obs):
            raise RuntimeError("TLC judged %d of %d trees" % (judged, len(obs)))
        chk.cov["traces_validated_against_impl"] = judged
        chk.cov["trees"] = len(obs)
        if obs:
            e = obs[min(len(obs) - 1, 40)]
            chk.sample({"tree": e["t"], "row": e["rows"][min(3, len(e["rows"]) - 1)], "preds": [p["name"] for p in PREDS]})
    finally:
        shutil.rmtree(wd, ignore_errors=True)


def main(tier):
    chk = Check("C04", tier)
    chk.cov["rule"] = ("TLC enumerates all ordered tree shapes up to %d nodes and all labellings over <A>/<B>/terminal "
                       "of all shapes up to %d nodes; for each tree every ordered pair of nodes x %d predicate instances "
                       "is evaluated through evaluate(); an evaluation counts when the documented definition applies; "
                       "distinct_nontrivial = number of distinct trees" % (BOUNDS[tier] + (len(PREDS),)))
    chk.assumptions = ["consecutive is compared on pairs of leaves only, nth only for nonterminal first arguments "
                       "(outside the documented definition otherwise)",
                       "level: transcribed from the five-line comment that is its only definition",
                       "nth counts node_2 itself as a candidate occurrence"]
    run(chk)
    return chk.finish(exhaustive=True)


def replay(path):
    with open(path) as f:
        rec = json.load(f)
    chk = Check("C04", "quick")
    run(chk, trees_in=[c["tree"] for c in rec["cases"]])
    return chk.finish()
