"""Shared by C01, C02, C22: run solver cases in worker processes (one case per task, wall-clock
cap), validate the recorded traces with TLC against spec/SolverTrace.tla, classify rejections."""
import json
import os
import random

from harness import catalogue, formulas as F, tlc
from harness import project as pj
from harness.common import chunks, pmap, tmap, NPROC

TRACE_CFG = ("INIT TInit\nNEXT TNext\nCONSTANTS MaxId = 1000000 MaxClock = 100000000 MaxCalls = 100000 Timeout = 0 Monotone = TRUE "
             "Probes = TRUE ProbeTimeoutEscapes = FALSE InitStates = 1\nCHECK_DEADLOCK FALSE\n")
C01_CLAUSES = {"open-tree-returned", "not-a-derivation-tree", "wrong-root", "constraint-violated"}


def record(chk, cases, timeout, fresh=False):
    results = pmap("solver", cases, timeout=timeout, fresh=fresh)
    traces = []
    for c, r in zip(cases, results):
        if r.get("_timeout"):
            chk.cov["unjudged"] += 1
            chk.note("cases_timed_out")
            continue
        if "events" not in r:
            raise RuntimeError("solver driver failed on case %s: %r" % (c["id"], r))
        r["case"] = c
        traces.append(r)
    return traces


def validate(chk, wd, traces, tag="v"):
    """returns {case id: ("accepted"|"rejected", steps, [mismatch tuples], state)}"""
    todo = [t for t in traces if not t["ctor_error"]]
    # heavier cases first, round-robin over shards
    todo.sort(key=lambda t: -len(t["events"]))
    shards = [[] for _ in range(NPROC)]
    for k, t in enumerate(todo):
        shards[k % NPROC].append({k2: v for k2, v in t.items() if k2 not in ("case", "solutions", "ctor_error", "z3_unknowns", "data")})

    def val(ks):
        k, shard = ks
        w = os.path.join(wd, "%s%d" % (tag, k))
        os.makedirs(w)
        tf = os.path.join(w, "traces.json")
        json.dump({"cases": shard}, open(tf, "w"))
        return tlc.run_tlc("SolverTrace", TRACE_CFG, env={"TRACE_FILE": tf}, wd=w, xmx="3g", timeout=3000)
    out = {}
    for r in tmap(val, [(k, s) for k, s in enumerate(shards) if s]):
        chk.add_tlc(r)
        mism, states = {}, {}
        for _, cid, step, ev, clauses in r.tuples("MISMATCH"):
            mism.setdefault(cid, []).append((step, ev, clauses))
        for _ in r.tuples("UNJUDGED"):
            chk.cov["unjudged"] += 1
            chk.note("solutions_with_numerals_beyond_32_bits")
        for _, cid, st in r.tuples("STATE"):
            states[cid] = st
        for _, cid, steps, verdict in r.tuples("TRACE"):
            out[cid] = (verdict, steps, mism.get(cid, []), states.get(cid))
    if len(out) != len(todo):
        raise RuntimeError("TLC decided %d of %d traces" % (len(out), len(todo)))
    return out


DATA_CFG = "INIT DInit\nNEXT DNext\nINVARIANT HashesAreShapes\nCHECK_DEADLOCK FALSE\n"


def search_conformance(chk, wd, traces):
    """Diagnostic, never a violation: the data of every recorded step (trees, queue priorities, the tree-hash set) against the
    decision rules of spec/SolverData.tla.  Result goes to the evidence field search_conformance."""
    todo = [t["data"] for t in traces if t.get("data") and not t["ctor_error"]]
    if not todo:
        return
    # shards of bounded size (every event carries a tree: TLC's JSON reader holds the whole shard in memory)
    todo.sort(key=lambda d: -len(d["events"]))
    shards, cur, n = [], [], 0
    for d in todo:
        if cur and n + len(d["events"]) > 2500:
            shards.append(cur)
            cur, n = [], 0
        cur.append(d)
        n += len(d["events"])
    if cur:
        shards.append(cur)

    def val(ks):
        k, shard = ks
        w = os.path.join(wd, "data%d" % k)
        os.makedirs(w)
        tf = os.path.join(w, "data.json")
        json.dump({"cases": shard}, open(tf, "w"))
        return tlc.run_tlc("SolverData", DATA_CFG, env={"TRACE_FILE": tf}, wd=w, xmx="3g", timeout=3000)
    rep = {"cases": 0, "steps": 0, "cases_with_broken_rules": 0, "broken_rules": {}, "examples": {}}
    byid = {t["id"]: t for t in traces}
    try:
        results = tmap(val, [(k, s) for k, s in enumerate(shards) if s])
    except tlc.TlcError as ex:
        # a diagnostic never decides the property: if TLC cannot digest the data, say so in the evidence and go on
        chk.cov["search_conformance"] = {"failed": str(ex)[:300]}
        return
    for r in results:
        chk.add_tlc(r)
        for _, cid, steps, diag in r.tuples("DATA"):
            rep["cases"] += 1
            rep["steps"] += steps
            if diag:
                rep["cases_with_broken_rules"] += 1
            for d in diag:
                rep["broken_rules"][d] = rep["broken_rules"].get(d, 0) + 1
                rep["examples"].setdefault(d, {"constraint": byid[cid]["case"].get("text"), "grammar": byid[cid]["case"].get("grammar"),
                                               "settings": byid[cid]["case"].get("settings")})
    if rep["cases"] != len(todo):
        raise RuntimeError("SolverData judged %d of %d cases" % (rep["cases"], len(todo)))
    chk.cov["search_conformance"] = rep


SETTINGS_GRID = {
    "max_number_free_instantiations": [1, 3],
    "max_number_smt_instantiations": [1, 3],
    "enable_optimized_z3_queries": [True, False],
    "enforce_unique_trees_in_queue": [True, False],
    "tree_insertion_methods": [0, 1, 3, 7],
    "activate_unsat_support": [False, False, True],
}


def random_settings(rnd):
    st = {k: rnd.choice(v) for k, v in SETTINGS_GRID.items()}
    if st["activate_unsat_support"]:
        st["tree_insertion_methods"] = 0
    return st


def formula_cases(chk, plan, calls, rnd, per_formula=1):
    """cases from the hand-written catalogue + schema formulas of each grammar in plan: name -> n schema formulas"""
    cases = []
    for name, nschema in plan.items():
        g = catalogue.GRAMMARS[name]
        fs = list(catalogue.hand_formulas(name))
        if nschema:
            from harness.checks.c03 import NUMERIC_NTS
            fs += F.schema(g, random.Random(chk.seed * 31 + len(name)), nschema, numeric_nts=NUMERIC_NTS.get(name, ()))
        for fam, ast in fs:
            if fam in ("mexpr-ambiguous", "numeric-all-nonneg"):
                continue
            for _ in range(per_formula):
                cases.append({"grammar": name, "g": pj.grammar_to_json(g), "fam": fam, "text": F.text(ast), "phi": ast,
                              "settings": random_settings(rnd), "calls": calls, "seed": rnd.randrange(1000), "ticks": []})
            hand = fam in {f for f, _ in catalogue.hand_formulas(name)}
            if hand and ast["op"] in ("and", "forall", "exists"):
                # the unsat-support probe with several free instantiations (conjunctions with an existential are where it matters)
                st = dict(random_settings(rnd), activate_unsat_support=True, tree_insertion_methods=0, max_number_free_instantiations=3)
                cases.append({"grammar": name, "g": pj.grammar_to_json(g), "fam": fam, "text": F.text(ast), "phi": ast,
                              "settings": st, "calls": calls, "seed": rnd.randrange(1000), "ticks": []})
            if hand and ast["op"] in ("forall", "exists") and ast["ty"] != "<start>" and ast["in"] == "start":
                # a requested start symbol: the quantified element is the root itself
                st = dict(random_settings(rnd), start_symbol=ast["ty"])
                cases.append({"grammar": name, "g": pj.grammar_to_json(g), "fam": fam + "@start=" + ast["ty"], "text": F.text(ast), "phi": ast,
                              "settings": st, "calls": calls, "seed": rnd.randrange(1000), "ticks": []})
        cases.append({"grammar": name, "g": pj.grammar_to_json(g), "fam": "no-constraint", "text": None, "phi": {"op": "true"},
                      "settings": random_settings(rnd), "calls": calls, "seed": rnd.randrange(1000), "ticks": []})
    for i, c in enumerate(cases):
        c["id"] = i + 1
    return cases
