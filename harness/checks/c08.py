"""C08 -- simplified syntax means exactly its documented core translation.
Pairs (sugared text, core AST of the documented translation): the sugared text is evaluated by
evaluate()/check() on every TLC-enumerated tree and TLC judges the verdicts against
IslaSemantics!Sat of the core AST (the machinery of C03 with text := sugar, ast := core)."""
import json
import random
import shutil

from harness import catalogue, formulas as F, sugar, tlc
from harness import project as pj
from harness.checks import c03
from harness.common import Check

TIERS = {"quick": {"ASSGN2": (7, 30, 120, 30), "ASSGN2S": (7, 26, 80, 10), "WIDE12": (3, 26, 48, 3), "XMLISH": (6, 26, 100, 20), "NULLABLE": (6, 14, 40, 10)},
         "thorough": {"ASSGN2": (8, 40, 300, 100), "ASSGN2S": (8, 34, 200, 40), "WIDE12": (3, 26, 200, 8), "ASSGN": (7, 30, 150, 50),
                      "XMLISH": (7, 34, 250, 60), "NULLABLE": (8, 20, 120, 40), "CSVISH": (7, 22, 120, 25), "NUM": (6, 16, 120, 25)}}
PID = "C08"


def build(chk, wd, plan):
    units = []
    k = 0
    for name, (depth, nodes, cap, n) in plan.items():
        g = catalogue.GRAMMARS[name]
        trees = c03.gen_trees(chk, wd, name, g, depth, nodes, cap)
        forms = []
        for fam, text, core in sugar.pairs(name, g, chk.seed, n):
            k += 1
            forms.append({"id": k, "fam": fam, "ast": F.set_num_bounds(core), "text": text, "core_text": F.text(core)})
        units.append({"name": name, "g": pj.grammar_to_json(g), "trees": trees, "formulas": forms})
    return units


def main(tier):
    chk = Check(PID, tier)
    chk.cov["rule"] = ("pairs (sugar, core): the examples islaspec prints itself, hand-written XPath cases (child, index, descendant, several expansion "
                       "alternatives under forall/exists), and sugar derived mechanically from schema formulas (omitted `in start`, prefix/infix vs "
                       "S-expression notation, omitted variable names, free nonterminals incl. ones closed around conjunctions/disjunctions, implies/iff/xor, "
                       "negative literals); trees as in C03, including trees on which the free nonterminal does not occur")
    chk.assumptions = ["the closure of a free nonterminal is one universal quantifier around the whole formula, as islaspec says",
                       "conflicting XPath uses (documented as errors) are not generated"]
    wd = tlc.workdir("c08")
    try:
        units = build(chk, wd, TIERS[tier])
    finally:
        shutil.rmtree(wd, ignore_errors=True)
    _run(chk, units)
    return chk.finish()


def _run(chk, units):
    saved = c03.sig_for

    def sig_for(u, f, exp, e, c):
        s = saved(u, f, exp, e, c)
        s.pop("numeric", None)
        return s

    def labels(t, acc):
        acc.add(t["n"])
        for ch in t["ch"]:
            labels(ch, acc)
        return acc
    c03.EXTRA_SIG = lambda u, f, tree: {"empty_domain": f["ast"]["op"] == "forall" and f["ast"]["ty"] not in labels(tree, set())}
    c03.sig_for = sig_for
    try:
        c03.run(chk, units)
    finally:
        c03.sig_for = saved
        c03.EXTRA_SIG = None


def replay(path):
    rec = json.load(open(path))
    chk = Check(PID, "quick")
    units = []
    for k, c in enumerate(rec["cases"]):
        units.append({"name": c["grammar_name"], "g": c["g"], "trees": [c["tree"]], "formulas": [dict(c["formula"], id=k + 1)]})
    _run(chk, units)
    return chk.finish()
