"""C12 -- fuzzer expansions and mutations give valid trees of the same kind.
TLC enumerates the closed trees of each catalogue grammar up to a bound and all prunings of the
trees of a smaller bound (spec/MC_C12.tla, Gen); the harness completes the open trees with
GrammarFuzzer / GrammarCoverageFuzzer.expand_tree and mutates the closed trees with Mutator.mutate
and each mutation strategy, under many seeds; TLC judges every recorded (pre, post) with
Relations!ExpandStep / Relations!MutateStep."""
import json
import os
import random
import shutil

from harness import catalogue, tlc
from harness import project as pj
from harness.common import Check, chunks, pmap, tmap, NPROC

PID = "C12"
# grammar -> (depth, nodes) of closed trees, (depth, nodes) of trees to prune, #open, #closed sampled
TIERS = {
    "quick": dict(
        plan={"ASSGN2": (8, 30, 7, 19, 28, 18), "XMLISH": (7, 30, 6, 20, 28, 18), "NUM": (7, 18, 6, 14, 24, 14),
              "NULLABLE": (8, 16, 7, 13, 24, 14), "AMBIG": (6, 15, 5, 13, 24, 14), "LEFTREC": (7, 22, 6, 16, 24, 14),
              "RIGHTREC": (8, 20, 7, 16, 24, 14), "MULTICHAR": (3, 8, 3, 8, 8, 9), "CSVISH": (8, 22, 7, 16, 28, 18),
              "TWOSTART": (8, 16, 7, 13, 12, 14), "LENGTHS": (7, 18, 6, 14, 24, 14), "MARKUP": (7, 14, 6, 12, 16, 10)},
        expand_seeds=3, mutate_seeds=2, step_timeout=150, cap=10, n_phase1=5, phase1_seeds=1),
    "thorough": dict(
        plan={"ASSGN2": (9, 34, 8, 22, 220, 120), "XMLISH": (8, 34, 7, 24, 220, 120), "NUM": (8, 20, 7, 16, 160, 100),
              "NULLABLE": (10, 20, 9, 17, 60, 30), "AMBIG": (7, 17, 6, 15, 160, 60), "LEFTREC": (8, 24, 7, 18, 160, 80),
              "RIGHTREC": (9, 24, 8, 18, 160, 80), "MULTICHAR": (3, 8, 3, 8, 8, 9), "CSVISH": (8, 24, 7, 18, 220, 120),
              "TWOSTART": (10, 20, 9, 17, 30, 20), "LENGTHS": (8, 20, 7, 16, 160, 100), "MARKUP": (8, 18, 7, 15, 80, 40)},
        expand_seeds=5, mutate_seeds=4, step_timeout=400, cap=30, n_phase1=16, phase1_seeds=2),
}
FUZZERS = [("GrammarFuzzer", 0, 10), ("GrammarCoverageFuzzer", 0, 10), ("GrammarFuzzer", 2, 5), ("GrammarCoverageFuzzer", 3, 20)]
OPS = ["mutate", "replace_subtree_randomly", "swap_subtrees", "generalize_subtree"]
UNIT = 10
GCFG = "INIT GInit\nNEXT GNext\nCHECK_DEADLOCK FALSE\n"
JCFG = "INIT JInit\nNEXT JNext\nINVARIANT Judged\nCHECK_DEADLOCK FALSE\n"
SHARD_STEPS = 2500


def gen(wd, name, g, depth, nodes, pdepth, pnodes):
    w = os.path.join(wd, "gen-" + name)
    os.makedirs(w)
    cf, out = os.path.join(w, "cfg.json"), os.path.join(w, "out.json")
    with open(cf, "w") as f:
        json.dump({"g": pj.grammar_to_json(g), "start": "<start>", "depth": depth, "nodes": nodes,
                   "pdepth": pdepth, "pnodes": pnodes}, f)
    r = tlc.run_tlc("MC_C12", GCFG, env={"CASE_FILE": cf, "OUT_FILE": out}, wd=w, xmx="3g", timeout=900)
    with open(out) as f:
        d = json.load(f)
    for k in ("closed", "open"):
        d[k].sort(key=lambda t: json.dumps(t, sort_keys=True))
    return r, d


def sample(rnd, xs, n):
    """seeded sample that always keeps the smallest and the largest trees"""
    if len(xs) <= n:
        return list(xs)
    by = sorted(xs, key=pj.size)
    keep = by[:2] + by[-2:]
    rest = by[2:-2]
    return keep + rnd.sample(rest, max(0, n - len(keep)))


def _nt_subtrees(t):
    for c in t["ch"]:
        if c["nt"]:
            yield c
            yield from _nt_subtrees(c)


def _shape(t):
    return {"n": t["n"], "nt": t["nt"], "open": t["open"], "c": t["c"], "ch": [_shape(c) for c in t["ch"]]}


def _depth(t):
    d, stack = 0, [(t, 1)]
    while stack:
        n, k = stack.pop()
        d = max(d, k)
        stack.extend((c, k + 1) for c in n["ch"])
    return d


def _renum(t):
    t = json.loads(json.dumps(t))
    pj.renumber(t)
    return t


def _has_open(t):
    return t["open"] or any(_has_open(c) for c in t["ch"])


def build_units(chk, wd):
    P = TIERS[chk.tier]
    names = list(P["plan"])
    gens = tmap(lambda n: gen(wd, n, catalogue.GRAMMARS[n], *P["plan"][n][:4]), names, nthreads=min(NPROC, 5))
    units = []
    for name, (r, d) in zip(names, gens):
        chk.add_tlc(r)
        chk.cov.setdefault("trees_enumerated", {})[name] = {"closed": len(d["closed"]), "open": len(d["open"])}
        rnd = random.Random(chk.seed * 1009 + sum(map(ord, name)))
        g = catalogue.GRAMMARS[name]
        jg = pj.grammar_to_json(g)
        n_open, n_closed = P["plan"][name][4:]
        opens = sample(rnd, d["open"], n_open)
        # expand_tree is also run on the bare start symbol (= fuzz_tree) and on closed trees (nothing to do)
        opens += [{"n": "<start>", "nt": True, "open": True, "c": [], "id": 0, "ch": []}] + sample(rnd, d["closed"], 2)
        closed = sample(rnd, d["closed"], n_closed)
        # trees rooted in other nonterminals than <start>: small proper subtrees of the enumerated trees (as distinct shapes)
        subs_c, subs_o = {}, {}
        for pool, acc in ((d["closed"], subs_c), (d["open"], subs_o)):
            for t in pool:
                for sub in _nt_subtrees(t):
                    if 2 <= pj.size(sub) <= 9:
                        acc.setdefault(json.dumps(_shape(sub), sort_keys=True), sub)
        closed += [_renum(t) for t in sample(rnd, [subs_c[k] for k in sorted(subs_c)], max(4, n_closed // 2))]
        opens += [_renum(t) for t in sample(rnd, [subs_o[k] for k in sorted(subs_o) if _has_open(subs_o[k])], max(3, n_open // 4))]
        for s in range(P["expand_seeds"]):
            for fi, (cls, mn, mx) in enumerate(FUZZERS):
                order = list(opens)
                rnd.shuffle(order)
                unit = UNIT
                if mn > 0 and s >= P["phase1_seeds"]:
                    continue
                if mn > 0:
                    # phase 1 of expand_tree (deterministic max-cost strategy) only runs with min_nonterminals > 0:
                    # fewer trees, small units
                    order = order[:P["n_phase1"]]
                    unit = 3
                for ci, c in enumerate(chunks(order, max(1, len(order) // unit))):
                    units.append({"grammar": name, "g": jg, "kind": "expand", "cls": cls, "minnt": mn, "maxnt": mx, "cap": P["cap"],
                                  "reclimit": 400 if mn > 0 else 0,
                                  "eps": bool((s + fi + ci) % 2), "seed": rnd.randrange(1, 10 ** 6), "pres": c})
        for s in range(P["mutate_seeds"]):
            for op in OPS:
                order = list(closed)
                rnd.shuffle(order)
                for ci, c in enumerate(chunks(order, max(1, len(order) // UNIT))):
                    mm = [(2, 5), (1, 1), (3, 3)][(s + ci) % 3]
                    units.append({"grammar": name, "g": jg, "kind": "mutate", "minmut": mm[0], "maxmut": mm[1], "cap": P["cap"],
                                  "eps": bool((s + ci) % 2), "seed": rnd.randrange(1, 10 ** 6), "pres": c,
                                  "ops": [op] * len(c)})
    return units


def judge(wd, k, gs, steps):
    w = os.path.join(wd, "j%d" % k)
    os.makedirs(w)
    cf = os.path.join(w, "case.json")
    with open(cf, "w") as f:
        json.dump({"gs": gs, "steps": steps}, f)
    return tlc.run_tlc("MC_C12", JCFG, env={"CASE_FILE": cf}, wd=w, xmx="3g", timeout=3000)


def run(chk, units):
    P = TIERS[chk.tier]
    wd = tlc.workdir("c12")
    try:
        if units is None:
            units = build_units(chk, wd)
        results = pmap("c12", units, timeout=P["step_timeout"])
        gnames, gs = [], []
        steps, where = [], {}
        for ui, (u, res) in enumerate(zip(units, results)):
            if res.get("_timeout") or res.get("_crashed"):
                chk.cov["unjudged"] += len(u["pres"])
                chk.note("unit_timeouts" if res.get("_timeout") else "unit_crashes")
                chk.cov.setdefault("timeout_units", []).append(
                    {"grammar": u["grammar"], "kind": u["kind"], "op": (u.get("ops") or [u.get("cls")])[0], "seed": u["seed"]})
                continue
            if "steps" not in res:
                raise RuntimeError("C12 driver failed: %r" % (res,))
            if u["grammar"] not in gnames:
                gnames.append(u["grammar"])
                gs.append(u["g"])
            for k, st in enumerate(res["steps"]):
                chk.note("calls_" + st["op"])
                if st["res"] == "nothing":
                    chk.note("strategy_not_applicable_" + st["op"])
                    continue
                if st["res"] == "timeout":
                    chk.cov["unjudged"] += 1
                    chk.note("step_timeouts_" + st["op"])
                    continue
                if st["res"] == "ok" and _depth(st["post"]) > 100:
                    # the JSON reader of TLC's Json module refuses values nested deeper than 255 levels (two per tree level)
                    chk.cov["unjudged"] += 1
                    chk.note("results_deeper_than_100_levels_not_judged")
                    continue
                sid = len(steps) + 1
                steps.append({"id": sid, "gi": gnames.index(u["grammar"]) + 1, "kind": st["kind"], "res": st["res"],
                              "pre": st["pre"], "post": st["post"]})
                where[sid] = (ui, k, st)
        shards = chunks(steps, max(NPROC, (len(steps) + SHARD_STEPS - 1) // SHARD_STEPS)) if steps else []
        rs = tmap(lambda ks: judge(wd, ks[0], gs, ks[1]), list(enumerate(shards)))
        judged = 0
        for r in rs:
            chk.add_tlc(r)
            for _, sid, why, preok, changed in r.tuples("STEP"):
                judged += 1
                ui, k, st = where[sid]
                u = units[ui]
                if not preok:
                    raise RuntimeError("C12: generated input is not a valid tree of its grammar: %r" % (st["pre"],))
                chk.cov["evaluations"] += 1
                chk.note("steps_" + st["op"])
                if changed:
                    chk.note("post_differs_from_pre")
                    chk.nontrivial((u["grammar"], st["op"], json.dumps(st["pre"], sort_keys=True)))
                if why == "OK":
                    chk.cov["traces_validated_against_impl"] += 1
                else:
                    sig = {"clause": why, "op": st["op"], "exc": st["exc"].split(":")[0]}
                    # families: the main family runs the fuzzers with their default settings (min_nonterminals = 0);
                    # the min_nonterminals > 0 variant (phase 1 of expand_tree) is a separately labelled family
                    sig["family"] = ("mutate" if st["kind"] == "mutate" else
                                     "expand-min-nonterminals" if u["minnt"] > 0 else "expand-default-settings")
                    unit = dict(u, pres=u["pres"][:k + 1])
                    if "ops" in unit:
                        unit["ops"] = unit["ops"][:k + 1]
                    chk.mismatch(sig, {"unit": unit, "failing_step": k, "pre": st["pre"], "post": st["post"] if st["res"] == "ok" else None,
                                       "exc": st["exc"], "pre_string": pj.jyield(st["pre"]),
                                       "post_string": pj.jyield(st["post"]) if st["res"] == "ok" else None,
                                       "grammar": catalogue.GRAMMARS.get(u["grammar"], pj.json_to_grammar(u["g"]))})
        if judged != len(steps):
            raise RuntimeError("TLC judged %d of %d steps" % (judged, len(steps)))
        chk.cov["units"] = len(units)
        for sid in list(where)[:: max(1, len(where) // 4)][:4]:
            ui, k, st = where[sid]
            chk.sample({"grammar": units[ui]["grammar"], "op": st["op"], "fuzzer": units[ui].get("cls"), "seed": units[ui]["seed"],
                        "pre": pj.jyield(st["pre"]), "pre_open": _is_open(st["pre"]), "post": pj.jyield(st["post"]), "res": st["res"]})
    finally:
        shutil.rmtree(wd, ignore_errors=True)


def _is_open(j):
    return j["open"] or any(_is_open(c) for c in j["ch"])


def main(tier):
    chk = Check(PID, tier)
    P = TIERS[tier]
    chk.cov["rule"] = ("inputs: TLC enumerates the closed trees of %d catalogue grammars up to a height/node bound (trees to mutate) and all prunings "
                       "(sets of pairwise non-nested nonterminal nodes turned into open leaves) of the trees of a smaller bound (trees to complete); a "
                       "seeded sample of them (always with the smallest and largest), the bare <start> leaf and two closed trees are completed by GrammarFuzzer "
                       "and GrammarCoverageFuzzer with default settings x %d seeds, both epsilon shapes (family expand-default-settings), and a few of them with "
                       "min_nonterminals = 2 / 3 so that phase 1 of expand_tree runs (separately labelled family expand-min-nonterminals); closed trees are "
                       "mutated with Mutator.mutate and with each of replace_subtree_randomly / swap_subtrees / generalize_subtree x %d seeds. One evaluation = "
                       "one (pre, post) step judged by TLC; non-trivial = distinct (grammar, operation, pre) whose post differs from pre"
                       % (len(P["plan"]), P["expand_seeds"], P["mutate_seeds"]))
    chk.assumptions = ["an exception of expand_tree / mutate on a valid input is reported as a violation (the statement says a tree is yielded for every random choice)",
                       "a mutation strategy answering Nothing is not a step (counted as strategy_not_applicable)",
                       "units exceeding the wall-clock cap are unjudged",
                       "units with min_nonterminals > 0 run with the interpreter recursion limit lowered to 400 (their trees are < 60 deep) so that a "
                       "diverging expansion ends in its RecursionError quickly (at the default limit the same call ends in the same error after several seconds)"]
    chk.cov["bounds"] = {k: list(v) for k, v in P["plan"].items()}
    run(chk, None)
    return chk.finish(exhaustive=False)


def replay(path):
    with open(path) as f:
        rec = json.load(f)
    chk = Check(PID, "quick")
    run(chk, [dict(c["unit"], cap=c["unit"].get("cap", 30)) for c in rec["cases"]])
    return chk.finish()
