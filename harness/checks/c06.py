"""C06 -- three-valued verdicts on partial trees never contradict any completion.
TLC enumerates closed trees and all their prunings; evaluate() is run on every open tree; TLC
decides for each definite verdict whether some enumerated completion has the opposite verdict
under IslaSemantics!Sat."""
import json
import os
import random
import shutil

from harness import catalogue, formulas as F, tlc
from harness import project as pj
from harness.checks import c03
from harness.common import Check, chunks, pmap, tmap, NPROC

# grammar -> (height, nodes, max closed trees, max open trees, schema formulas)
TIERS = {"quick": {"ASSGN2": (7, 22, 120, 160, 25), "ASSGN2S": (7, 20, 50, 80, 12), "XMLISH": (6, 22, 80, 120, 15), "NULLABLE": (6, 14, 40, 60, 10), "CSVISH": (7, 18, 80, 100, 8)},
         "thorough": {"ASSGN2": (7, 30, 300, 500, 60), "ASSGN2S": (7, 26, 150, 250, 30), "XMLISH": (7, 30, 200, 350, 40),
                      "NULLABLE": (8, 20, 60, 150, 30), "CSVISH": (7, 22, 200, 300, 20), "NUM": (6, 16, 150, 250, 20), "AMBIG": (6, 14, 30, 80, 10)}}
PID = "C06"


def open_trees(chk, wd, name, g, closed, cap):
    w = os.path.join(wd, "open-" + name)
    os.makedirs(w)
    cf = os.path.join(w, "c.json")
    out = os.path.join(w, "open.json")
    json.dump({"g": g, "closed": closed}, open(cf, "w"))
    r = tlc.run_tlc("MC_C06", "INIT GInit\nNEXT GNext\nCHECK_DEADLOCK FALSE\n", env={"CASE_FILE": cf, "OUT_FILE": out}, wd=w, xmx="6g", timeout=1500)
    chk.add_tlc(r)
    shapes = json.load(open(out))["open"]
    chk.cov.setdefault("open_trees_enumerated", {})[name] = len(shapes)
    shapes.sort(key=lambda t: json.dumps(t, sort_keys=True))
    if len(shapes) > cap:
        shapes = random.Random(chk.seed).sample(shapes, cap)
    for s in shapes:
        addids(s)
    return shapes


def addids(t, k=[0]):
    stack = [t]
    n = 0
    while stack:
        x = stack.pop()
        x["id"] = n
        n += 1
        stack.extend(reversed(x["ch"]))


def run(chk, units=None):
    wd = tlc.workdir("c06")
    try:
        if units is None:
            plan = {n: (d, nodes, cap, ns) for n, (d, nodes, cap, _, ns) in TIERS[chk.tier].items()}
            units = c03.build_cases(chk, wd, plan)
            for u in units:
                u["formulas"] = [f for f in u["formulas"] if f["fam"] not in ("mexpr-ambiguous",)]
                # prune only moderately sized trees (the number of prunings grows quickly)
                byshape = sorted(u["trees"], key=lambda t: (pj.size(t), json.dumps(t, sort_keys=True)))
                small = [t for t in byshape if pj.size(t) <= 14][:40]
                large = [t for t in byshape if 14 < pj.size(t) <= 34]
                rnd = random.Random(chk.seed + 17)
                large = rnd.sample(large, min(len(large), 25 if chk.tier == "quick" else 150))
                u["open"] = open_trees(chk, wd, u["name"], u["g"], small + large, TIERS[chk.tier][u["name"]][3])
        tasks, index = [], []
        for ui, u in enumerate(units):
            for c in chunks(u["formulas"], max(1, min(len(u["formulas"]), NPROC * 2))):
                tasks.append({"g": u["g"], "trees": u["open"], "check": False, "formulas": [{"id": f["id"], "text": f["text"]} for f in c]})
                if u["name"] in catalogue.SIBLING_OF:
                    sib, inp = catalogue.SIBLING_OF[u["name"]]
                    tasks[-1]["prelude"] = {"g": pj.grammar_to_json(catalogue.GRAMMARS[sib]), "input": inp}
                index.append((ui, c))
        results = pmap("c03", tasks, timeout=1500)
        jobs = []
        for (ui, c), res in zip(index, results):
            if res.get("_timeout"):
                chk.cov["unjudged"] += len(c) * len(units[ui]["open"])
                continue
            if "obs" not in res:
                raise RuntimeError("driver failed: %r" % (res,))
            jobs.append((ui, c, res["obs"]))

        def judge(job):
            k, (ui, c, obs) = job
            u = units[ui]
            w = os.path.join(wd, "j%d" % k)
            os.makedirs(w)
            cf = os.path.join(w, "case.json")
            json.dump({"g": u["g"], "mdepth": 6, "closed": u["trees"], "open": u["open"],
                       "formulas": [{"id": f["id"], "ast": f["ast"]} for f in c], "obs": obs}, open(cf, "w"))
            return tlc.run_tlc("MC_C06", "INIT JInit\nNEXT JNext\nINVARIANT Judged\nCHECK_DEADLOCK FALSE\n", env={"CASE_FILE": cf},
                               wd=w, xmx="3g", timeout=3000)
        rs = tmap(judge, list(enumerate(jobs)))
        byid = {f["id"]: (u, f) for u in units for f in u["formulas"]}
        obs_by = {f["id"]: row for ui, c, obs in jobs for f, row in zip(c, obs)}
        n = 0
        for r in rs:
            chk.add_tlc(r)
            for _, fid, nopen, definite, mixed, nbad in r.tuples("FORMULA"):
                n += 1
                chk.cov["evaluations"] += nopen
                chk.note("definite_verdicts", definite)
                chk.note("open_trees_with_both_outcomes", mixed)
                if mixed:
                    chk.nontrivial(fid)
                row = obs_by[fid]
                chk.note("exceptions_on_open_trees", sum(1 for o in row if o["e"].startswith("X:")))
            for _, fid, o, e, c in r.tuples("REFUTED"):
                u, f = byid[fid]
                chk.mismatch({"family": f["fam"], "verdict": e, "grammar": u["name"], "numeric": F.has_numeric(f["ast"]),
                              "uses_count": "count(" in f["text"],
                              "count_negated": "count(" in f["text"] and f["text"].count("count(") == f["text"].count("not (count(")},
                             {"grammar_name": u["name"], "formula": f, "open_tree": u["open"][o - 1], "open_string": pj.jyield(u["open"][o - 1]),
                              "completion": u["trees"][c - 1], "completion_string": pj.jyield(u["trees"][c - 1]), "evaluate": e})
        if n != sum(len(c) for _, c, _ in jobs):
            raise RuntimeError("TLC judged %d formulas" % n)
        chk.cov["traces_validated_against_impl"] = chk.cov["evaluations"]
        for u in units[:2]:
            f = u["formulas"][0]
            chk.sample({"grammar": u["name"], "formula": f["text"], "open_tree": u["open"][len(u["open"]) // 2],
                        "verdict": obs_by.get(f["id"], [{}])[len(u["open"]) // 2]})
    finally:
        shutil.rmtree(wd, ignore_errors=True)


def main(tier):
    chk = Check(PID, tier)
    chk.cov["rule"] = ("closed trees: TLC enumeration per grammar (as C03); open trees: all prunings (sets of pairwise non-nested nonterminal nodes turned into "
                       "open leaves) of the closed trees with <= 16 nodes, as distinct shapes, sampled to a cap; formulas: C03 catalogue; an evaluation = "
                       "evaluate(formula, open tree); non-trivial = formula for which some open tree has completions with both verdicts")
    chk.assumptions = ["one-sided: UNKNOWN is always accepted; a definite verdict is refuted only by an enumerated completion (no false alarms from the bound)",
                       "exceptions on open trees are counted, not flagged (the statement speaks about returned verdicts)"]
    run(chk)
    return chk.finish()


def replay(path):
    rec = json.load(open(path))
    chk = Check(PID, "quick")
    units = []
    for k, c in enumerate(rec["cases"]):
        g = pj.grammar_to_json(catalogue.GRAMMARS[c["grammar_name"]])
        units.append({"name": c["grammar_name"], "g": g, "trees": [c["completion"]], "open": [c["open_tree"]],
                      "formulas": [dict(c["formula"], id=k + 1)]})
    run(chk, units)
    return chk.finish()
