"""C03 -- evaluate()/check() agree with the ISLa language specification on closed trees.
TLC enumerates all derivation trees of each catalogue grammar up to a bound; formulas come from the
hand-written catalogue (match expressions, numeric quantifiers, corner cases) and the schema
generator; verdicts of evaluate() and ISLaSolver.check() are recorded and judged by TLC with
IslaSemantics!Sat (a transcription of islaspec.rst)."""
import json
import os
import random
import shutil

from harness import catalogue, formulas as F, tlc
from harness import project as pj
from harness.common import Check, chunks, pmap, tmap, NPROC

# grammar -> (tree height, node bound, max trees, schema formulas)
TIERS = {
    "quick": {"ASSGN2": (7, 30, 150, 50), "XMLISH": (6, 26, 120, 30), "NULLABLE": (6, 14, 60, 20), "NUM": (6, 16, 80, 20),
              "AMBIG": (5, 12, 40, 8), "CSVISH": (7, 22, 80, 15), "QUOTED": (6, 16, 40, 6), "UNI": (6, 14, 25, 3), "WIDE": (0, 0, 6, 0)},
    "thorough": {"ASSGN2": (8, 40, 250, 90), "ASSGN": (7, 30, 120, 40), "XMLISH": (7, 34, 180, 50), "NULLABLE": (8, 20, 120, 40),
                 "NUM": (7, 20, 150, 40), "AMBIG": (6, 16, 80, 15), "CSVISH": (8, 24, 150, 30), "LEFTREC": (7, 24, 100, 25),
                 "QUOTED": (6, 16, 60, 10), "UNI": (7, 18, 100, 10), "WIDE": (0, 0, 6, 0)},
}
NUMERIC_NTS = {"NUM": ("<digits>", "<digit>"), "ASSGN": ("<digit>",), "ASSGN2": ("<digit>",)}
PID = "C03"
EXTRA_SIG = None      # optional hook (C08): extra signature coordinates computed from (unit, formula, tree)


def gen_trees(chk, wd, name, g, depth, nodes, cap):
    if name == "WIDE":
        from harness.treeobj import N, T
        pats = ["0" * 40, "0" * 27 + "1" + "0" * 12, "0" * 28 + "1" + "0" * 11, "0" * 39 + "1", "1" + "0" * 39, "01" * 20]
        trees = [N("<start>", N("<row>", *[N("<d>", T(b)) for b in p])) for p in pats]
    else:
        w = os.path.join(wd, "gen-" + name)
        os.makedirs(w)
        cf = os.path.join(w, "cfg.json")
        out = os.path.join(w, "trees.json")
        json.dump({"g": pj.grammar_to_json(g), "depth": depth, "nodes": nodes}, open(cf, "w"))
        r = tlc.run_tlc("MC_C03", "INIT GInit\nNEXT GNext\nCHECK_DEADLOCK FALSE\n", env={"CASE_FILE": cf, "OUT_FILE": out},
                        wd=w, xmx="6g", timeout=1200)
        chk.add_tlc(r)
        trees = json.load(open(out))["trees"]
        chk.cov.setdefault("trees_enumerated", {})[name] = len(trees)
        if len(trees) > cap:
            rnd = random.Random(chk.seed)
            trees.sort(key=lambda t: json.dumps(t, sort_keys=True))
            trees = rnd.sample(trees, cap)
    for t in trees:
        pj.renumber(t)
    return trees


def grammar_of(name):
    return catalogue.wide(40) if name == "WIDE" else catalogue.GRAMMARS[name]


def build_cases(chk, wd, plan):
    """returns list of units: dict(name, g, trees, formulas)"""
    units = []
    for name, (depth, nodes, cap, nschema) in plan.items():
        g = grammar_of(name)
        trees = gen_trees(chk, wd, name, g, depth, nodes, cap)
        rnd = random.Random(chk.seed * 7919 + len(name))
        fs = list(catalogue.hand_formulas(name))
        if nschema:
            fs += F.schema(g, rnd, nschema, numeric_nts=NUMERIC_NTS.get(name, ()))
        forms = [{"fam": fam, "ast": a, "text": F.text(a)} for fam, a in fs]
        units.append({"name": name, "g": pj.grammar_to_json(g), "trees": trees, "formulas": forms})
    k = 0
    for u in units:
        for f in u["formulas"]:
            k += 1
            f["id"] = k
    return units


def sig_for(u, f, exp, e, c):
    kind = "exception" if (e.startswith("X:") or c.startswith("X:")) else "unknown" if "U" in (e, c) else "wrong-verdict"
    return {"family": f["fam"], "kind": kind, "grammar": u["name"], "numeric": F.has_numeric(f["ast"]), "expected": exp,
            "exc": (e if e.startswith("X:") else c if c.startswith("X:") else "")}


def run(chk, units):
    wd = tlc.workdir("c03")
    try:
        if units is None:
            units = build_cases(chk, wd, TIERS[chk.tier])
        tasks, index = [], []
        for ui, u in enumerate(units):
            for c in chunks(u["formulas"], max(1, min(len(u["formulas"]), NPROC * 2))):
                tasks.append({"g": u["g"], "trees": u["trees"], "formulas": [{"id": f["id"], "text": f["text"]} for f in c]})
                if u["name"] in catalogue.SIBLING_OF:
                    sib, inp = catalogue.SIBLING_OF[u["name"]]
                    tasks[-1]["prelude"] = {"g": pj.grammar_to_json(catalogue.GRAMMARS[sib]), "input": inp}
                index.append((ui, c))
        results = pmap("c03", tasks, timeout=1500)
        jobs = []
        for (ui, c), res in zip(index, results):
            u = units[ui]
            if res.get("_timeout"):
                chk.cov["unjudged"] += len(c) * len(u["trees"])
                chk.note("driver_timeouts")
                continue
            if "obs" not in res:
                raise RuntimeError("C03 driver failed: %r" % (res,))
            jobs.append((ui, c, res["obs"]))

        def judge(job):
            k, (ui, c, obs) = job
            u = units[ui]
            w = os.path.join(wd, "j%d" % k)
            os.makedirs(w)
            cf = os.path.join(w, "case.json")
            json.dump({"g": u["g"], "mdepth": 6, "trees": u["trees"],
                       "formulas": [{"id": f["id"], "ast": f["ast"]} for f in c], "obs": obs}, open(cf, "w"))
            return tlc.run_tlc("MC_C03", "INIT JInit\nNEXT JNext\nINVARIANT Judged\nCHECK_DEADLOCK FALSE\n",
                               env={"CASE_FILE": cf}, wd=w, xmx="3g", timeout=3000)
        rs = tmap(judge, list(enumerate(jobs)))
        byid = {f["id"]: (u, f) for u in units for f in u["formulas"]}
        obs_by = {}
        for ui, c, obs in jobs:
            for f, row in zip(c, obs):
                obs_by[f["id"]] = row
        judged = 0
        for r in rs:
            chk.add_tlc(r)
            for _, fid, ntrees, ntrue, nbad in r.tuples("FORMULA"):
                judged += 1
                u, f = byid[fid]
                chk.cov["evaluations"] += ntrees
                chk.note("strategy_qe" if F.has_numeric(f["ast"]) else "strategy_legacy", ntrees)
                chk.cov.setdefault("families", {}).setdefault(f["fam"], 0)
                chk.cov["families"][f["fam"]] += ntrees
                if 0 < ntrue < ntrees:
                    chk.nontrivial(fid)
            for _, fid, t, exp, e, c in r.tuples("MISMATCH"):
                u, f = byid[fid]
                sig = sig_for(u, f, exp, e, c)
                if EXTRA_SIG is not None:
                    sig.update(EXTRA_SIG(u, f, u["trees"][t - 1]))
                chk.mismatch(sig,
                             {"grammar_name": u["name"], "g": u["g"], "formula": f, "tree": u["trees"][t - 1],
                              "string": pj.jyield(u["trees"][t - 1]), "expected": exp, "evaluate": e, "check": c})
        if judged != sum(len(c) for _, c, _ in jobs):
            raise RuntimeError("TLC judged %d formulas, expected %d" % (judged, sum(len(c) for _, c, _ in jobs)))
        chk.cov["traces_validated_against_impl"] = chk.cov["evaluations"]
        chk.cov["formulas"] = judged
        for u in units[:3]:
            f = u["formulas"][0]
            chk.sample({"grammar": u["name"], "formula": f["text"], "tree": pj.jyield(u["trees"][len(u["trees"]) // 2]),
                        "observed": obs_by.get(f["id"], [{}])[len(u["trees"]) // 2]})
    finally:
        shutil.rmtree(wd, ignore_errors=True)


def main(tier):
    chk = Check(PID, tier)
    chk.cov["rule"] = ("trees: all derivation trees of each catalogue grammar up to a height/node bound enumerated by TLC (sampled down to a cap "
                       "with VERIF_SEED), plus 6 trees with a 40-children node; formulas: hand-written catalogue (match expressions incl. optionals "
                       "and ambiguity, numeric quantifiers, count, level/nth, vacuous bodies, literals and match expressions beyond Latin-1 on grammar UNI) + schema-generated (prefix shape x matrix shape x atom family); "
                       "one evaluation = (formula, tree) judged for evaluate() and ISLaSolver.check(); non-trivial = formula with both verdicts among its trees")
    chk.assumptions = ["numeric quantifiers range over 0..NumBound (exact for the generated atom family, DESIGN.md 6.1)",
                       "str.to.int is applied to unsigned numerals only", "match-expression parse depth bound 6"]
    run(chk, None)
    return chk.finish()


def replay(path):
    rec = json.load(open(path))
    chk = Check(PID, "quick")
    units = []
    for k, c in enumerate(rec["cases"]):
        f = dict(c["formula"], id=k + 1)
        units.append({"name": c["grammar_name"], "g": c["g"], "trees": [c["tree"]], "formulas": [f]})
    run(chk, units)
    return chk.finish()
