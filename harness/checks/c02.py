"""C02 -- solve() only returns solutions or signals exhaustion/timeout, then stays so.
(1) spec/Solver.tla is model-checked exhaustively (latch, FIFO, probe-restore properties) for several
configurations; (2) real solvers are driven through call/tick schedules under a virtual clock (ticks
at the n-th call, n-th queue pop or n-th unsat probe; extra calls after the first exception) and over an
operator sweep (one constraint per SMT-LIB operator / predicate); every recorded trace must be a
behaviour of Solver (spec/SolverTrace.tla): any other exception, or a call outcome the model does not
allow in that state (e.g. a solution after StopIteration), rejects the trace."""
import json
import os
import random
import shutil

from harness import catalogue, formulas as F, smt, tlc
from harness import project as pj
from harness.checks import solvercommon as sc
from harness.common import Check, NPROC
from harness.formulas import FA, EX, SMT, PRED, COUNT, AND
from harness.smt import A, I, S, V

PID = "C02"
TIERS = {"quick": dict(nsched=70, nsweep=50, calls=7, timeout=40), "thorough": dict(nsched=600, nsweep=400, calls=9, timeout=120)}
PROPS = ("INVARIANT TypeOK\nINVARIANT Fifo\nINVARIANT BufferIsRest\nINVARIANT NoLossAtStop\nINVARIANT ExhaustedMeansEmpty\n"
         "PROPERTY StopLatches\nPROPERTY ProbeRestores\nPROPERTY TimeoutLatches\n")
MODELS = {  # name -> (constants, expected violated properties)
    "timeout-1": ("Timeout = 1 Monotone = TRUE Probes = FALSE ProbeTimeoutEscapes = FALSE", []),
    "timeout-2-probes": ("Timeout = 2 Monotone = TRUE Probes = TRUE ProbeTimeoutEscapes = FALSE", []),
    "no-timeout-probes": ("Timeout <- NoTimeout Monotone = TRUE Probes = TRUE ProbeTimeoutEscapes = FALSE", []),
    # sensitivity of the specification: the two behaviours that break the timeout latch
    "historical-probe-timeout-escapes": ("Timeout <- NoTimeout Monotone = TRUE Probes = TRUE ProbeTimeoutEscapes = TRUE", ["TimeoutLatches"]),
    "clock-steps-back": ("Timeout = 1 Monotone = FALSE Probes = FALSE ProbeTimeoutEscapes = FALSE", ["TimeoutLatches"]),
}


def model_check(chk):
    bound = "MaxId = 5 MaxClock = 4 MaxCalls = 5 InitStates = 1" if chk.tier == "thorough" else "MaxId = 4 MaxClock = 3 MaxCalls = 4 InitStates = 1"
    for name, (consts, expected) in MODELS.items():
        cfg = "SPECIFICATION Spec\nCONSTANTS %s %s\n%sCHECK_DEADLOCK FALSE\n" % (bound, consts, PROPS)
        r = tlc.run_tlc("Solver", cfg, workers=NPROC, timeout=1500, check=False)
        if r.rc not in (0, 12, 13):
            raise tlc.TlcError("Solver model %s: rc=%s\n%s" % (name, r.rc, r.out[-2000:]))
        chk.add_tlc(r)
        chk.cov.setdefault("abstract_models", {})[name] = {"states": r.distinct, "violated": r.violated}
        if sorted(set(r.violated)) != sorted(expected):
            raise tlc.TlcError("Solver model %s: violated %s, expected %s" % (name, r.violated, expected))


def schedules(rnd, n, calls):
    g = pj.grammar_to_json(catalogue.ASSGN2)
    base = [
        ('exists <assgn> a in start: (= a "a := b")', EX("<assgn>", "a", SMT(A("=", V("a"), S("a := b"))))),
        ('forall <var> v in start: (= v "a")', FA("<var>", "v", SMT(A("=", V("v"), S("a"))))),
        ('forall <assgn> x="{<var> l} := {<rhs> r}" in start: (not (= l r))', catalogue.hand_formulas("ASSGN2")[1][1]),
        ('exists <digit> d in start: (= d "7")', EX("<digit>", "d", SMT(A("=", V("d"), S("7"))))),            # unsatisfiable
        ('(< (str.len start) 7)', SMT(A("<", A("str.len", V("start")), I(7)))),                               # finitely many solutions
        (None, {"op": "true"}),
        # unsatisfiable SMT atom together with an unsatisfiable existential (both unsat checks fire on the same state)
        ('forall <digit> d in start: ((= d "zz") and exists <var> v in start: (= v "q"))',
         FA("<digit>", "d", AND(SMT(A("=", V("d"), S("zz"))), EX("<var>", "v", SMT(A("=", V("v"), S("q"))))))),
    ]
    grid = []
    for at, ns in (("call", [1, 2, 3, 4]), ("pop", [1, 2, 3, 5, 8, 13]), ("probe", [1, 2, 3])):
        for k in ns:
            for by in (2, 5):
                grid.append([{"at": at, "n": k, "by": by}])
    grid += [[], [{"at": "pop", "n": 2, "by": 2}, {"at": "call", "n": 4, "by": 9}]]
    cases = []
    for ticks in grid:
        for timeout in (None, 1, 3):
            for unsat in (False, True):
                text, phi = base[rnd.randrange(len(base))]
                st = {"activate_unsat_support": unsat, "timeout_seconds": timeout, "max_number_free_instantiations": rnd.choice([1, 3]),
                      "max_number_smt_instantiations": rnd.choice([1, 3])}
                cases.append({"grammar": "ASSGN2", "g": g, "fam": "schedule", "text": text, "phi": phi, "settings": st, "calls": calls,
                              "seed": rnd.randrange(1000), "ticks": ticks})
    rnd.shuffle(cases)
    cases = cases[:n]
    # unsat support together with tree insertion (discouraged, but allowed): existential matches and insertions of one
    # step produce solutions and probed states side by side
    for k, (text, phi) in enumerate(base[:2] + base[-1:]):
        for tim in (7, 3):
            cases.append({"grammar": "ASSGN2", "g": g, "fam": "schedule", "text": text, "phi": phi,
                          "settings": {"activate_unsat_support": True, "tree_insertion_methods": tim, "max_number_free_instantiations": 1 + 2 * (k % 2)},
                          "calls": calls, "seed": rnd.randrange(1000), "ticks": []})
    return cases


def sweep(rnd, n, calls):
    """one constraint per SMT-LIB operator combination / predicate, quantified and quantifier-free"""
    from harness.drivers.c05 import sort_of
    out = []
    gname = "NUM"
    g = catalogue.GRAMMARS[gname]
    gj = pj.grammar_to_json(g)
    terms = [t for fam, t in smt.grid(rnd.randrange(10 ** 6), 0.2) if fam != "bignum"]
    rnd.shuffle(terms)
    seen = set()
    for t in terms:
        ops = tuple(sorted(smt.ops_in(t)))
        if ops in seen or "str.<" in ops or "div" in ops or "mod" in ops:
            continue
        seen.add(ops)
        replaced = [False]

        def put_var(u):
            if u["k"] == "str" and not replaced[0]:
                replaced[0] = True
                return V("x")
            if u["k"] == "app" and u["f"] != "re.range":
                return dict(u, args=[put_var(a) for a in u["args"]])
            return u
        tv = put_var(t)
        if not replaced[0]:
            continue
        so = sort_of(tv)
        atom = tv if so == "bool" else A("=", tv, I(1) if so == "int" else S("1"))
        nt = rnd.choice(["<digits>", "<int>", "<digit>"])
        q = rnd.choice([FA, EX])
        f = q(nt, "x", SMT(atom))
        out.append((gname, gj, "sweep-" + "+".join(o for o in ops if o not in ("=",))[:40], F.text(f), f))
        if len(out) >= n:
            break
    for name, fs in (("ASSGN2", [FA("<var>", "a", EX("<var>", "b", PRED(p, "a", "b"))) for p in
                                 ("before", "after", "inside", "direct_child", "same_position", "different_position")]
                      + [FA("<assgn>", "a", FA("<var>", "b", PRED("nth", 1, "b", "a"), inn="a")),
                         FA("<var>", "a", FA("<var>", "b", PRED("level", ("s", "GE"), ("s", "<assgn>"), "a", "b"))),
                         COUNT("start", "<assgn>", 2), F.EXI("n", AND(COUNT("start", "<var>", "n"), SMT(A(">", A("str.to.int", V("n")), I(2)))))]),):
        for f in fs:
            f = F.set_num_bounds(f)
            out.append((name, pj.grammar_to_json(catalogue.GRAMMARS[name]), "sweep-predicate", F.text(f), f))
    cases = []
    for name, gj, fam, text, phi in out:
        cases.append({"grammar": name, "g": gj, "fam": fam, "text": text, "phi": phi, "settings": {"max_number_smt_instantiations": 2},
                      "calls": calls, "seed": rnd.randrange(1000), "ticks": []})
    return cases


def run(chk, cases, timeout):
    wd = tlc.workdir("c02")
    try:
        traces = sc.record(chk, cases, timeout)
        for t in traces:
            if t["ctor_error"]:
                # the constraint/grammar was not accepted: outside "constraint accepted by the parser"
                chk.cov["unjudged"] += 1
                chk.note("constructor_rejected_case")
        verdicts = sc.validate(chk, wd, traces)
        bycase = {t["id"]: t for t in traces}
        for cid, (verdict, steps, mism, state) in verdicts.items():
            t = bycase[cid]
            c = t["case"]
            ncalls = sum(1 for e in t["events"] if e["ev"] == "Call")
            chk.cov["evaluations"] += ncalls
            outs = [s[1:] if s.startswith("!") else "ret" for s in t["solutions"]]
            if len(set(outs)) > 1:
                chk.nontrivial(cid)
            if verdict == "accepted":
                chk.cov["traces_validated_against_impl"] += 1
                continue
            for step, ev, clauses in mism:
                own = [cl for cl in clauses if cl not in sc.C01_CLAUSES]
                e = t["events"][step - 1]
                for cl in own:
                    if cl == "disallowed-outcome":
                        sig = {"clause": cl, "exc": e.get("exc", "").split(":")[0], "family": c["fam"].split("-")[0]}
                    else:
                        sig = {"clause": "disallowed-outcome-sequence" if e["ev"] in ("Return", "Stop", "Timeout") else "event-not-allowed-by-Solver",
                               "event": e["ev"], "probe": bool(c["settings"].get("activate_unsat_support")), "family": c["fam"].split("-")[0]}
                    chk.mismatch(sig, {"case": c, "outcomes": t["solutions"], "event": {k: v for k, v in e.items() if k != "tree"},
                                       "step": step, "model_state": state})
                if not own:
                    chk.note("traces_rejected_for_c01_reasons")
        for t in traces[:: max(1, len(traces) // 4)][:4]:
            chk.sample({"constraint": t["case"]["text"], "settings": t["case"]["settings"], "ticks": t["case"]["ticks"], "outcomes": t["solutions"]})
    finally:
        if not os.environ.get("VERIF_KEEP"):
            shutil.rmtree(wd, ignore_errors=True)


def main(tier):
    chk = Check(PID, tier)
    P = TIERS[tier]
    chk.cov["rule"] = ("abstract model: Solver.tla checked exhaustively in %d configurations; implementation: %d call/tick schedules (tick of 2 or 5 s at the n-th "
                       "call / queue pop / unsat probe x timeout in {none,1,3} x unsat support) over 6 constraints incl. unsatisfiable and finite ones, and an operator "
                       "sweep of %d constraints; %d solve() calls each; an evaluation = one solve() call explained by the model; non-trivial = case with more than one "
                       "kind of outcome" % (len(MODELS), P["nsched"], P["nsweep"], P["calls"]))
    chk.assumptions = ["the clock is monotone (Solver.tla refutes the timeout latch when it is not: configuration clock-steps-back)",
                       "cases exceeding the wall-clock cap and constraints rejected by the constructor are unjudged"]
    model_check(chk)
    rnd = random.Random(chk.seed)
    cases = schedules(rnd, P["nsched"], P["calls"]) + sweep(rnd, P["nsweep"], P["calls"])
    for i, c in enumerate(cases):
        c["id"] = i + 1
    chk.cov["cases"] = len(cases)
    run(chk, cases, P["timeout"])
    return chk.finish()


def replay(path):
    rec = json.load(open(path))
    chk = Check(PID, "quick")
    cases = [dict(c["case"], id=i + 1) for i, c in enumerate(rec["cases"])]
    run(chk, cases, 120)
    return chk.finish()


def selftest():
    """the binding is not vacuous: corrupted traces of a real run must be rejected by SolverTrace"""
    import copy
    chk = Check(PID, "quick")
    g = pj.grammar_to_json(catalogue.ASSGN2)
    base = {"grammar": "ASSGN2", "g": g, "fam": "selftest", "text": 'exists <var> v in start: (= v "a")',
            "phi": EX("<var>", "v", SMT(A("=", V("v"), S("a")))), "settings": {"timeout_seconds": 3}, "calls": 4, "seed": 1,
            "ticks": [{"at": "call", "n": 3, "by": 9}], "id": 1}
    wd = tlc.workdir("c02self")
    try:
        t = sc.record(chk, [base], 120)[0]
        variants = {"original": t}

        def mutate(name, fn):
            v = copy.deepcopy(t)
            v["id"] = len(variants) + 1
            fn(v["events"])
            variants[name] = v
        rets = [i for i, e in enumerate(t["events"]) if e["ev"] == "Return"]
        adm = [i for i, e in enumerate(t["events"]) if e["ev"] == "Admit" and e["kind"] == "Solution"]
        tmo = [i for i, e in enumerate(t["events"]) if e["ev"] == "Timeout"]
        assert len(rets) >= 2 and adm and tmo, (len(rets), len(adm), len(tmo), [e["ev"] for e in t["events"]])
        mutate("returns-swapped", lambda ev: ev.__setitem__(rets[0], dict(ev[rets[1]])) or ev.__setitem__(rets[1], dict(t["events"][rets[0]])))
        mutate("admission-dropped", lambda ev: ev.pop(adm[0]))
        mutate("solution-after-timeout", lambda ev: ev.append({"ev": "Call"}) or ev.append(dict(t["events"][rets[0]])))
        mutate("timeout-without-clock", lambda ev: [ev.pop(i) for i in reversed([k for k, e in enumerate(ev) if e["ev"] == "Tick"])])

        def violate(ev):
            tree = ev[rets[0]]["tree"]

            def leaves(n):
                if not n["nt"]:
                    n["c"] = [ord("b")] if n["c"] == [ord("a")] else n["c"]
                for ch in n["ch"]:
                    leaves(ch)
            leaves(tree)
        mutate("returned-tree-violates-constraint", violate)
        mutate("queue-length-off", lambda ev: [e.__setitem__("qlen", e["qlen"] + 1) for e in ev if e["ev"] == "Pop"][:1])
        verdicts = sc.validate(chk, wd, list(variants.values()))
        ok = True
        for name, v in variants.items():
            verdict = verdicts[v["id"]][0]
            expect = "accepted" if name == "original" else "rejected"
            print("selftest %-36s -> %s %s" % (name, verdict, "" if verdict == expect else "(UNEXPECTED)"))
            ok = ok and verdict == expect
        return 0 if ok else 2
    finally:
        shutil.rmtree(wd, ignore_errors=True)
