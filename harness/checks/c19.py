"""C19 -- the isla command line honours its exit-code and output contract.
spec/Cli.tla is the decision table Exit(v) over condition vectors and the two-step pipeline machine.
TLC enumerates every condition vector x command (MC_C19 Gen); TLC classifies TLC-enumerated trees and
candidate strings of the catalogue grammars (member? satisfies which constraint? -- MC_C19 Classify);
the harness materialises each vector as files and arguments, runs `python -m isla` in a subprocess and
records status / stdout / stderr facts; TLC recomputes the condition vector from the concrete grammar,
constraints and input and judges every record (MC_C19 Judge) and every pipeline trace (MC_C19 Pipes)."""
import json
import os
import random
import shutil

from harness import catalogue, formulas as F, tlc
from harness import project as pj
from harness.catalogue import lit
from harness.checks.c03 import gen_trees
from harness.checks.c21 import tuples
from harness.common import Check, chunks, pmap, tmap, NPROC
from harness.formulas import FA, EX, AND, NOT, COUNT, SMT, PRED, M, MCH, MNT
from harness.smt import A, I, V

PID = "C19"
MDEPTH = 6
TIERS = {
    # n_other: sampled vectors besides the always-included core; reps: materialisations per vector
    "quick": dict(n_other=150, reps=1, pdepth=3, pipe_sets=1, nsol=3, cap=40, pipe_grammars=2),
    "thorough": dict(n_other=None, reps=1, pdepth=4, pipe_sets=3, nsol=5, cap=80),
}

NULLSTART = {"<start>": ["<S>"], "<S>": ["<A><B>"], "<A>": ["a<A>", ""], "<B>": ["b", ""]}
# name -> grammar, tree enumeration bounds (height, nodes), bound L of the Kleene language (exact membership up to L)
DIGITS = {"<start>": ["<int>"], "<int>": ["<digit><int>", "<digit>"], "<digit>": ["0", "1", "2"]}   # members that are also JSON values
GRAMMARS = {
    "ASSGN2": dict(g=catalogue.ASSGN2, depth=7, nodes=30, L=24),
    "DIGITS": dict(g=DIGITS, depth=6, nodes=14, L=5),
    "NULLSTART": dict(g=NULLSTART, depth=7, nodes=14, L=8),
    "CSVISH": dict(g=catalogue.CSVISH, depth=7, nodes=20, L=7),
}


def formulas_for(name):
    if name == "ASSGN2":
        return [EX("<assgn>", "x", lit("x", "a := 1")),
                FA("<assgn>", "a", EX("<assgn>", "d", AND(PRED("before", "d", "a"),
                   FA("<var>", "r", EX("<var>", "l", SMT(A("=", V("l"), V("r"))), inn="d"), inn="a")))),
                FA("<assgn>", "x", NOT(SMT(A("=", V("l"), V("r")))), mexpr=M(MNT("<var>", "l"), MCH(" := "), MNT("<rhs>", "r"))),
                COUNT("start", "<assgn>", 2),
                EX("<var>", "v", lit("v", "b")),
                FA("<digit>", "d", lit("d", "1"))]
    if name == "NULLSTART":
        return [EX("<B>", "b", lit("b", "b")),
                FA("<A>", "x", SMT(A("<=", A("str.len", V("x")), I(1)))),
                COUNT("start", "<A>", 2),
                EX("<A>", "x", lit("x", ""))]
    if name == "DIGITS":
        return [EX("<digit>", "d", lit("d", "1")),
                FA("<digit>", "d", NOT(lit("d", "0"))),
                COUNT("start", "<digit>", 2)]
    if name == "CSVISH":
        return [COUNT("start", "<field>", 2),
                EX("<field>", "f", lit("f", "yy")),
                FA("<rows>", "r", EX("<field>", "f", lit("f", "x"), inn="r"))]
    raise KeyError(name)


BAD_GRAMMARS = ['<start> ::= <stmt', 'this is not a grammar', '<start> ::= "a" | | "b"', '<start> = <a>\n<a> = "x"']
BAD_CONSTRAINTS = ['exists <start> x in start: (= x ', 'forall x in: )(', 'exists <nosuchnonterminal> x in start: (= x "a")', '']
DUMMY_TREE = {"n": "", "nt": False, "open": False, "ch": [], "c": [], "id": 0}


# ------------------------------------------------------------------ printers (independent of isla)
def bnf_string(s):
    return '"' + s.replace("\\", "\\\\").replace('"', '\\"').replace("\n", "\\n").replace("\t", "\\t").replace("\r", "\\r") + '"'


# Python extension files whose `grammar` is not a grammar (a malformed grammar: exit code 65 with a message)
BAD_PY_GRAMMARS = ["def grammar():\n    return {}['<start>']\n", "grammar = 42\n", "grammar = {'<start>': 'not a list'}\n",
                   "def grammar():\n    return [('<start>', ['a'])]\n"]


def bnf_text(grammar, drop_rule=None, rename_start=None):
    lines = []
    for nt, alts in grammar.items():
        if nt == drop_rule:
            continue
        palts = []
        for alt in alts:
            toks = [t for t in pj.RE_NT.split(alt) if t]
            palts.append(" ".join(t if pj.is_nt(t) else bnf_string(t) for t in toks) if toks else '""')
        lines.append("%s ::= %s" % (rename_start if (rename_start and nt == "<start>") else nt, " | ".join(palts)))
    return "\n".join(lines) + "\n"


def parse_tree_of(j):
    """wire-format tree -> the nested list `isla parse` prints: [symbol, [children]]"""
    if not j["nt"]:
        return [pj.text(j["c"]), []]
    return [j["n"], [parse_tree_of(c) for c in j["ch"]]]


def corrupt(j, rnd):
    """a tree that is no derivation tree of the grammar: one terminal leaf spells something else"""
    j = json.loads(json.dumps(j))
    leaves = []

    def walk(n):
        if not n["nt"]:
            leaves.append(n)
        for c in n["ch"]:
            walk(c)
    walk(j)
    if leaves:
        rnd.choice(leaves)["c"] = pj.cps("?!")
    else:
        j["ch"] = [{"n": "", "nt": False, "open": False, "ch": [], "c": pj.cps("?!"), "id": 0}]
    return j


def nonmember_candidates(yields, rnd, n=40):
    ys = sorted(yields)
    out = {"", "?", "a :=", ";"}
    for y in rnd.sample(ys, min(len(ys), n)):
        if y:
            out.add(y[:-1])
            out.add(y[1:])
            k = rnd.randrange(len(y))
            out.add(y[:k] + "?" + y[k:])
            out.add(y + y[-1])
            out.add(y[:k] + y[k + 1:])
    return sorted(out - set(yields))


# ------------------------------------------------------------------ TLC passes
def sub(wd, name):
    p = os.path.join(wd, name)
    os.makedirs(p, exist_ok=True)
    return p


def grammars_json():
    return {name: {"G": pj.grammar_to_json(d["g"]), "L": d["L"]} for name, d in GRAMMARS.items()}


def gen_vectors(chk, wd):
    out = os.path.join(wd, "vectors.json")
    r = tlc.run_tlc("MC_C19", "CONSTANTS PDepth = 1\nINIT GInit\nNEXT GNext\nCHECK_DEADLOCK FALSE\n", env={"OUT_FILE": out},
                    wd=sub(wd, "gen"), xmx="2g")
    chk.add_tlc(r)
    with open(out) as f:
        d = json.load(f)
    return d["vectors"], d["plans"]


def explore_machine(chk, wd, pdepth):
    cfg = ("CONSTANTS PDepth = %d\nINIT PInit\nNEXT PNext\nINVARIANT AcceptedMeansAllChecksPass\nINVARIANT CompleteMeansEveryOutputChecked\n"
           "INVARIANT OnlyEmittedFilesAreChecked\nPROPERTY RejectIsFinal\nCHECK_DEADLOCK FALSE\n" % pdepth)
    r = tlc.run_tlc("MC_C19", cfg, wd=sub(wd, "machine"), workers=min(4, NPROC), xmx="3g", timeout=1500)
    chk.add_tlc(r)
    if r.violated:
        raise RuntimeError("the pipeline machine of Cli.tla violates its own theorem: %s" % r.violated)
    chk.cov["pipe_machine_states"] = r.distinct


def classify(chk, wd, P):
    """per grammar: trees (TLC-enumerated), candidate non-member strings, and TLC's verdicts"""
    units = []
    for name, d in GRAMMARS.items():
        trees = gen_trees(chk, wd, "c19-" + name, d["g"], d["depth"], d["nodes"], 10 ** 9)
        trees = sorted((t for t in trees if len(pj.jyield(t)) <= d["L"]), key=lambda t: (len(pj.jyield(t)), json.dumps(t, sort_keys=True)))
        rnd = random.Random(chk.seed * 31 + len(name))
        if len(trees) > P["cap"]:       # keep the shortest ones (empty string, single statements) and a seeded sample of the rest
            trees = trees[:8] + rnd.sample(trees[8:], P["cap"] - 8)
        for t in trees:
            pj.renumber(t)
        forms = formulas_for(name)
        strings = [s for s in nonmember_candidates({pj.jyield(t) for t in trees}, rnd) if len(s) <= d["L"]]
        units.append({"gn": name, "trees": trees, "forms": forms, "strings": [pj.cps(s) for s in strings]})
    cf = os.path.join(wd, "classify.json")
    with open(cf, "w") as f:
        json.dump({"grammars": grammars_json(), "mdepth": MDEPTH, "units": units}, f)
    r = tlc.run_tlc("MC_C19", "CONSTANTS PDepth = 1\nINIT CInit\nNEXT CNext\nINVARIANT Classified\nCHECK_DEADLOCK FALSE\n",
                    env={"CASE_FILE": cf}, wd=sub(wd, "classify"), xmx="4g", timeout=1500)
    chk.add_tlc(r)
    cat = {}
    for k, u in enumerate(units):
        cat[u["gn"]] = {"trees": u["trees"], "forms": u["forms"], "texts": [F.text(a) for a in u["forms"]],
                        "strings": [pj.text(s) for s in u["strings"]]}
    for u in units:
        cat[u["gn"]]["sat"] = {f: [None] * len(u["trees"]) for f in range(len(u["forms"]))}
        cat[u["gn"]]["mem"] = [None] * len(u["strings"])
    for _, k, f, t, x in tuples(r, "SAT"):
        cat[units[k - 1]["gn"]]["sat"][f - 1][t - 1] = x == "T"
    for _, k, s, x in tuples(r, "MEM"):
        cat[units[k - 1]["gn"]]["mem"][s - 1] = x == "T"
    for _, k, x in tuples(r, "TREES"):
        if x != "T":
            raise RuntimeError("TLC-enumerated tree rejected by ValidTree for %s" % units[k - 1]["gn"])
    for name, c in cat.items():
        if any(m is None for m in c["mem"]) or any(x is None for row in c["sat"].values() for x in row):
            raise RuntimeError("classification incomplete for %s" % name)
        c["nonmembers"] = [s for s, m in zip(c["strings"], c["mem"]) if not m]
        chk.cov.setdefault("classification", {})[name] = {
            "trees": len(c["trees"]), "formulas": len(c["forms"]), "nonmember_strings": len(c["nonmembers"]),
            "sat_pairs": sum(sum(r) for r in c["sat"].values()), "unsat_pairs": sum(len(r) - sum(r) for r in c["sat"].values())}
    return cat


# ------------------------------------------------------------------ materialisation
def pick_forms(c, kind, rnd):
    n = {"none": 0, "bad": 0, "one": 1, "two": 2, "two_onebad": 1}[kind]
    idx = list(range(len(c["forms"])))
    for _ in range(30):
        sel = rnd.sample(idx, n)
        # both a satisfying and a violating tree must exist, so that either input class can be realised
        sat = [all(c["sat"][f][t] for f in sel) for t in range(len(c["trees"]))]
        if n == 0 or (any(sat) and not all(sat)):
            return sel
    return sel


def materialise(v, cat, rnd, cid):
    gn = rnd.choice(sorted(cat))
    c = cat[gn]
    g = GRAMMARS[gn]["g"]
    files, opts, fargs = {}, [], []
    note = {}
    # grammar
    if v["g"] != "none":
        if v["g"] == "ok":
            gtext = bnf_text(g)
        elif v["g"] == "bad":
            gtext = rnd.choice(BAD_GRAMMARS)
        else:
            if rnd.random() < 0.5:
                used = sorted(nt for nt in g if nt != "<start>")
                gtext, note["illformed"] = bnf_text(g, drop_rule=rnd.choice(used)), "undefined-nonterminal"
            else:
                gtext, note["illformed"] = bnf_text(g, rename_start="<begin>"), "no-start"
        if v["gvia"] == "opt":
            opts += ["-g", gtext]
        elif v["gvia"] == "py" and v["g"] == "ok":
            files["grammar.py"] = rnd.choice(["grammar = %r\n", "def grammar():\n    return %r\n"]) % (dict(g),)
            fargs.append("grammar.py")
        elif v["gvia"] == "py":
            files["grammar.py"] = rnd.choice(BAD_PY_GRAMMARS)
            fargs.append("grammar.py")
        elif v["gvia"] == "split":
            nts = list(g)
            cut = rnd.randrange(1, len(nts)) if len(nts) > 1 else 1
            part_bnf = {n: g[n] for n in nts[:cut]}
            part_py = {n: g[n] for n in nts[cut:]}
            files["grammar.bnf"] = bnf_text(part_bnf)
            files["rest.py"] = "def grammar():\n    return %r\n" % (part_py,)
            fargs += rnd.choice([["grammar.bnf", "rest.py"], ["rest.py", "grammar.bnf"]]) if part_py else ["grammar.bnf"]
        else:
            files["grammar.bnf"] = gtext
            fargs.append("grammar.bnf")
    # constraints
    sel = pick_forms(c, v["c"], rnd)
    ctexts = [(c["texts"][f], True) for f in sel]
    if v["c"] in ("bad", "two_onebad"):
        ctexts.insert(rnd.randrange(len(ctexts) + 1), (rnd.choice(BAD_CONSTRAINTS[:3] if v["cvia"] != "file" else BAD_CONSTRAINTS), False))
    for k, (txt, _) in enumerate(ctexts):
        via = v["cvia"] if v["cvia"] != "mixed" else ("opt" if k == 0 else "file")
        if via == "opt":
            opts += ["-c", txt]
        else:
            files["c%d.isla" % k] = txt
            fargs.append("c%d.isla" % k)
    # input
    text, tree, has_tree, ambiguous = "", DUMMY_TREE, False, False
    sat = [all(c["sat"][f][t] for f in sel) for t in range(len(c["trees"]))]
    if v["ik"] != "none":
        ic = v["ic"]
        if ic == "empty":
            text = ""
            for t in c["trees"]:
                if pj.jyield(t) == "":
                    tree, has_tree = t, True
        elif ic in ("sat", "unsat"):
            pool = [t for t, s in zip(c["trees"], sat) if s == (ic == "sat")] or c["trees"]
            if ic == "unsat" and len(sel) > 1:
                # prefer inputs that satisfy some but not all of the given constraints (conjunction vs disjunction)
                some = [t for k, t in enumerate(c["trees"]) if not sat[k] and any(c["sat"][f][k] for f in sel)]
                pool = some or pool
            tree, has_tree = rnd.choice(pool), True
            text = pj.jyield(tree)
        else:
            if v["ik"] == "json":
                tree, has_tree = corrupt(rnd.choice(c["trees"]), rnd), True
                text = pj.jyield(tree)
            else:
                text = rnd.choice([s for s in c["nonmembers"] if s != ""] or ["?"])
        if v["ik"] == "string":
            opts += ["-i", text]
        elif v["ik"] == "file":
            if has_tree and ic in ("sat", "unsat") and rnd.random() < 0.12:
                ambiguous = True
            files["input.txt"] = text + ("\n" if ambiguous else "")
            fargs.append("input.txt")
        else:
            files["input.json"] = json.dumps(parse_tree_of(tree))
            fargs.append("input.json")
    extra = {"solve": ["-n", "2", "-t", "5"]}.get(v["cmd"], [])
    argv = [v["cmd"]] + extra + opts + fargs
    return {"id": cid, "cmd": v["cmd"], "g": v["g"], "c": v["c"], "ik": v["ik"], "gn": gn,
            "empty": v["ik"] in ("string", "file") and text == "" and not ambiguous, "ambiguous": ambiguous,
            "text": pj.cps(text), "tree": tree, "has_tree": has_tree, "forms": [c["forms"][f] for f in sel], "vector": v,
            "argv": argv, "files": files, "note": note, "constraints": [t for t, _ in ctexts]}


def select_vectors(vectors, P, rnd):
    core = [v for v in vectors if v["cmd"] == "check" and v["g"] == "ok" and v["gvia"] == "file" and v["c"] in ("one", "two")]
    core += [v for v in vectors if v["ik"] == "file" and v["ic"] == "empty" and v["g"] == "ok" and v["gvia"] == "file"
             and v["c"] == "one" and v["cvia"] == "file" and v["cmd"] != "check"]
    core += [v for v in vectors if v["cmd"] == "solve" and v["g"] == "ok"]
    core += [v for v in vectors if v["gvia"] in ("py", "split") and v["c"] == "one" and v["cvia"] == "file" and v["ik"] in ("none", "file")
             and v["ic"] in ("na", "sat", "unsat")]
    keyf = lambda v: json.dumps(v, sort_keys=True)
    seen = {keyf(v) for v in core}
    rest = sorted((v for v in vectors if keyf(v) not in seen), key=keyf)
    n_other = P["n_other"]
    if os.environ.get("VERIF_C19_MAX_OTHER"):          # development aid: bound a thorough run
        n_other = int(os.environ["VERIF_C19_MAX_OTHER"])
    if n_other is not None and len(rest) > n_other:
        rest = rnd.sample(rest, n_other)
    return core + rest


# ------------------------------------------------------------------ judging
def traceback_cause(o):
    """names the root cause of a traceback for the violation signature (one signature per root cause); reads the
    recorded stderr only, decides nothing"""
    err, exc, where = o.get("stderr_tail", ""), o.get("exc", ""), o.get("where", "")
    if exc == "IndexError" and where == "cli.py:get_input_string":
        return "empty-input"
    if ("safe()" in err and exc == "TypeError") or "'Maybe' has no attribute" in err:
        return "returns-library-api"
    if "Grammar has no rules for" in err:
        return "illformed-grammar"
    if "cli.py:get_input_string" in o.get("frames", []):      # the JSON branch of get_input_string (.map does not catch)
        return "json-input-not-a-valid-tree"
    return "%s@%s" % (exc or "?", where or "?")


TLC_CASE_KEYS = ("id", "cmd", "g", "c", "ik", "gn", "empty", "ambiguous", "text", "tree", "has_tree", "forms")
OBS_KEYS = ("status", "out_empty", "err_empty", "tb", "timeout")


def judge_cases(chk, wd, cases):
    def judge(kc):
        k, cs = kc
        w = os.path.join(wd, "j%d" % k)
        os.makedirs(w)
        cf = os.path.join(w, "cases.json")
        with open(cf, "w") as f:
            json.dump({"grammars": grammars_json(), "mdepth": MDEPTH,
                       "cases": [dict({key: c[key] for key in TLC_CASE_KEYS}, obs={key: c["obs"][key] for key in OBS_KEYS}) for c in cs]}, f)
        return tlc.run_tlc("MC_C19", "CONSTANTS PDepth = 1\nINIT JInit\nNEXT JNext\nINVARIANT Judged\nCHECK_DEADLOCK FALSE\n",
                           env={"CASE_FILE": cf}, wd=w, xmx="3g", timeout=3000)
    rs = tmap(judge, list(enumerate(chunks(cases, NPROC))))
    byid = {c["id"]: c for c in cases}
    judged = 0
    for r in rs:
        chk.add_tlc(r)
        for _, cid, row, verdict, mem, sat in tuples(r, "CASE"):
            judged += 1
            c = byid[cid]
            c["row"], c["verdict"], c["member"], c["sat"] = row, verdict, mem, sat
            if verdict == "BADWITNESS":
                raise RuntimeError("harness built an input whose witness tree TLC rejects: case %r" % c["argv"])
            if verdict.startswith("UNJUDGED"):
                chk.cov["unjudged"] += 1
                chk.note("unjudged_" + verdict[9:])
                continue
            chk.cov["evaluations"] += 1
            chk.cov.setdefault("rows", {}).setdefault(row, 0)
            chk.cov["rows"][row] += 1
            chk.cov.setdefault("by_command", {}).setdefault(c["cmd"], 0)
            chk.cov["by_command"][c["cmd"]] += 1
            if row != "unspecified":
                chk.nontrivial((c["cmd"], c["g"], c["c"], c["ik"], row, mem, sat, c["empty"]))
            if c["ik"] == "file" and c["empty"]:
                chk.note("empty_input_file_runs")
            want = c.get("vector", {}).get("ic")
            if want in ("sat", "unsat", "nonmember") and c["g"] == "ok" and c["c"] in ("one", "two"):
                got = "nonmember" if mem == "F" else "sat" if sat == "T" else "unsat" if sat == "F" else "?"
                chk.note("targets_realised" if got == want else "targets_not_realised")
            if verdict != "OK":
                o = c["obs"]
                if verdict == "traceback":
                    sig = {"clause": "traceback", "cause": traceback_cause(o)}
                elif verdict == "status" and row.startswith("check-") and c["ik"] == "file" and pj.text(c["text"]).endswith("\n"):
                    sig = {"clause": "status", "cause": "trailing-newline-stripped"}
                else:
                    sig = {"clause": verdict, "cause": "other", "cmd": c["cmd"], "row": row, "status": o["status"], "ik": c["ik"]}
                chk.mismatch(sig, {"kind": "single", "case": c, "command": "python -m isla " + " ".join(map(repr, c["argv"]))})
    if judged != len(cases):
        raise RuntimeError("TLC judged %d of %d runs" % (judged, len(cases)))
    return judged


def run_singles(chk, wd, cases):
    results = pmap("c19", [{"kind": "single", "files": c["files"], "argv": c["argv"], "timeout": 90} for c in cases], timeout=150)
    for c, res in zip(cases, results):
        if res.get("_timeout") or res.get("_crashed"):
            c["obs"] = {"status": -1, "out_empty": True, "err_empty": True, "tb": False, "timeout": True, "exc": "", "where": "",
                        "stdout_head": "", "stderr_tail": ""}
            continue
        if "obs" not in res:
            raise RuntimeError("C19 driver failed: %r" % (res,))
        c["obs"] = res["obs"]
        chk.cov["subprocess_wall_sum_s"] = round(chk.cov.get("subprocess_wall_sum_s", 0) + res["obs"].get("wall", 0), 1)
    n = judge_cases(chk, wd, cases)
    chk.cov["traces_validated_against_impl"] += n
    for c in cases[:3]:
        chk.sample({"argv": c["argv"], "files": {k: v[:120] for k, v in c["files"].items()}, "row": c.get("row"),
                    "member": c.get("member"), "sat": c.get("sat"), "status": c["obs"]["status"], "verdict": c.get("verdict")})


# ------------------------------------------------------------------ pipelines
def build_pipes(plans, cat, P, rnd):
    pipes = []
    pid = 0
    for gn in sorted(cat):
        c = cat[gn]
        g = GRAMMARS[gn]["g"]
        for rep in range(P["pipe_sets"]):
            for pk, plan in enumerate(sorted(plans, key=lambda p: json.dumps(p, sort_keys=True))):
                gk = sorted(cat).index(gn)
                if P.get("pipe_grammars") and (gk - pk) % len(cat) >= P["pipe_grammars"]:
                    continue        # quick: every plan on two of the grammars, rotating
                if plan["mode"] == "stdout-lines" and any("\n" in a for alts in g.values() for a in alts):
                    continue        # one solution per line is only meaningful without line breaks in the language
                nform = 1 + (rep + pid) % 2
                sel = pick_forms(c, "one" if nform == 1 else "two", rnd)
                files = {"grammar.bnf": bnf_text(g)}
                fargs = ["grammar.bnf"]
                for k, f in enumerate(sel):
                    files["c%d.isla" % k] = c["texts"][f]
                    fargs.append("c%d.isla" % k)
                pid += 1
                task = {"kind": "pipe", "id": pid, "spec": pid, "producer": plan["producer"], "mode": plan["mode"],
                        "checkvia": plan["checkvia"], "files": files, "gn": gn, "constraints": [c["texts"][f] for f in sel], "timeout": 120}
                if plan["producer"] == "solve":
                    opts = ["-n", str(P["nsol"]), "-t", "30"]
                    if plan["mode"].startswith("dir-"):
                        opts += ["-d", "out"]
                    if plan["mode"] == "dir-json":
                        opts += ["-T"]
                    task["producer_argv"] = ["solve"] + opts + fargs
                else:
                    sat = [all(c["sat"][f][t] for f in sel) for t in range(len(c["trees"]))]
                    pool = [t for t, s in zip(c["trees"], sat) if s] or c["trees"]
                    text = pj.jyield(rnd.choice(pool))
                    files["input.txt"] = text
                    task["input"] = text
                    opts = ["--pretty-print" if plan["mode"].endswith("pretty") else "--no-pretty-print"]
                    if plan["mode"].startswith("outfile-"):
                        opts += ["-o", "tree.json"]
                    task["producer_argv"] = ["parse"] + opts + fargs + ["input.txt"]
                task["check_argv"] = ["check"] + fargs + ["{}"]
                pipes.append(task)
    return pipes


def run_pipes(chk, wd, pipes):
    if not pipes:
        return
    results = pmap("c19", pipes, timeout=900)
    recs = []
    for p, res in zip(pipes, results):
        if res.get("_timeout") or res.get("_crashed"):
            chk.cov["unjudged"] += 1
            chk.note("unjudged_pipe_timeout")
            continue
        if "events" not in res:
            raise RuntimeError("C19 pipeline driver failed: %r" % (res,))
        p["events"] = res["events"]
        chk.cov["subprocess_wall_sum_s"] = round(chk.cov.get("subprocess_wall_sum_s", 0) + sum(e.get("wall", 0) for e in res["events"]), 1)
        recs.append(p)
    cf = os.path.join(wd, "pipes.json")
    keys = ("a", "spec", "status", "tb", "outs", "file", "timeout")
    with open(cf, "w") as f:
        json.dump({"grammars": grammars_json(), "mdepth": MDEPTH,
                   "pipes": [{"id": p["id"], "events": [{k: e[k] for k in keys} for e in p["events"]]} for p in recs]}, f)
    r = tlc.run_tlc("MC_C19", "CONSTANTS PDepth = 1\nINIT TInit\nNEXT TNext\nINVARIANT PipesJudged\nCHECK_DEADLOCK FALSE\n",
                    env={"CASE_FILE": cf}, wd=sub(wd, "pipes"), xmx="3g", timeout=1500)
    chk.add_tlc(r)
    byid = {p["id"]: p for p in recs}
    judged = 0
    for _, pid, verdict, nout, bad in tuples(r, "PIPE"):
        judged += 1
        p = byid[pid]
        if verdict == "NOT-A-BEHAVIOUR":
            raise RuntimeError("recorded pipeline is no behaviour of Cli.tla's machine: %r" % p["events"])
        if verdict.startswith("UNJUDGED"):
            chk.cov["unjudged"] += 1
            chk.note("unjudged_pipe_timeout")
            continue
        chk.cov["traces_validated_against_impl"] += 1
        chk.cov["evaluations"] += len(p["events"])
        chk.note("pipelines")
        chk.note("pipeline_outputs_checked", nout)
        key = p["producer"] + ":" + p["mode"] + ":" + p["checkvia"]
        chk.cov.setdefault("pipeline_plans", {}).setdefault(key, 0)
        chk.cov["pipeline_plans"][key] += 1
        if nout:
            chk.nontrivial(("pipe", p["gn"], key))
        if verdict == "MISMATCH":
            for clause in sorted(bad):
                evs = [e for e in p["events"] if (e["a"] == "check") == clause.startswith("check")
                       and (e["tb"] if clause.endswith("traceback") else e["status"] != 0)]
                e = evs[0] if evs else p["events"][0]
                if clause.endswith("traceback"):
                    sig = {"clause": "traceback", "cause": traceback_cause(e)}
                elif p["checkvia"] == "file" and p["mode"] == "dir-txt" and e.get("output", "").endswith("\n"):
                    sig = {"clause": clause, "cause": "trailing-newline-stripped"}
                else:
                    sig = {"clause": clause, "cause": "other", "producer": p["producer"], "mode": p["mode"], "checkvia": p["checkvia"],
                           "status": e["status"]}
                chk.mismatch(sig, {"kind": "pipe", "pipe": {k: v for k, v in p.items()}, "first_failing_event": e})
    if judged != len(recs):
        raise RuntimeError("TLC judged %d of %d pipelines" % (judged, len(recs)))
    for p in recs[:2]:
        chk.sample({"producer": p["producer_argv"], "check": p["check_argv"], "constraints": p["constraints"],
                    "events": [{k: e[k] for k in ("a", "status", "tb", "outs", "file")} for e in p["events"]]})


# ------------------------------------------------------------------ entry points
def main(tier):
    chk = Check(PID, tier)
    P = TIERS[tier]
    chk.cov["rule"] = (
        "condition vectors: TLC enumerates Cli!GenVectors = command x grammar {none,bad,illformed,ok} x how given x constraints "
        "{none,bad,one,two,two with one malformed} x how given {option,file,mixed} x input {none,--input-string,file,JSON tree file} "
        "x input class {empty,satisfying,violating,not in the language}; quick runs all `check` vectors with a well-formed grammar file and "
        "one/several well-formed constraints plus the empty-file vectors of the other commands plus all solve vectors with a well-formed grammar plus a seeded sample of the rest, thorough runs all "
        "vectors (grammar/constraints/input of each drawn with VERIF_SEED); one evaluation = one subprocess judged by TLC against Cli!Exit and the "
        "no-traceback clause (or one event of a two-step pipeline); non-trivial = distinct (command, grammar, constraints, input kind, row, member, sat) "
        "with a row the statement fixes, plus distinct pipeline plans that emitted at least one output")
    chk.assumptions = [
        "membership/satisfaction are decided by TLC (Grammars!LangUpTo exact up to the length bound, ValidTree on witness trees, IslaSemantics!SatTop); "
        "the catalogue grammars are unambiguous, so the witness tree is the parse the constraint is evaluated on",
        "a vector without any constraint (for check/parse/repair/mutate), with a BNF-parsable but ill-formed grammar, with --input-string \"\" or with "
        "an extra trailing line break in the input file is Unspecified: only 'no traceback' is asserted",
        "when a missing and a malformed item coincide either 2 or 65 is accepted (the statement gives no order)",
        "PYTHONWARNINGS=ignore in the child processes, so that 'stderr is non-empty' means an error message and not a deprecation warning",
        "exit codes of solve/parse/repair/mutate outside the missing/malformed rows are not fixed by the statement and not judged"]
    wd = tlc.workdir("c19")
    import time
    t0 = time.time()
    stage = chk.cov.setdefault("stage_seconds", {})

    def lap(name):
        nonlocal t0
        stage[name] = round(time.time() - t0, 1)
        t0 = time.time()
    try:
        explore_machine(chk, wd, P["pdepth"])
        lap("explore_pipe_machine")
        vectors, plans = gen_vectors(chk, wd)
        chk.cov["vectors_total"] = len(vectors)
        lap("gen_vectors")
        cat = classify(chk, wd, P)
        lap("enumerate_trees_and_classify")
        rnd = random.Random(chk.seed + 19)
        sel = select_vectors(vectors, P, rnd)
        chk.cov["vectors_run"] = len(sel)
        cases = []
        for rep in range(P["reps"]):
            for v in sel:
                cases.append(materialise(v, cat, rnd, len(cases) + 1))
        run_singles(chk, wd, cases)
        lap("single_runs_and_judging")
        run_pipes(chk, wd, build_pipes(plans, cat, P, random.Random(chk.seed + 1900)))
        lap("pipelines_and_judging")
    finally:
        shutil.rmtree(wd, ignore_errors=True)
    return chk.finish(exhaustive=(chk.cov.get("vectors_run") == chk.cov.get("vectors_total")))


def replay(path):
    with open(path) as f:
        rec = json.load(f)
    chk = Check(PID, "quick")
    wd = tlc.workdir("c19r")
    try:
        singles, pipes = [], []
        for k, c in enumerate(rec["cases"]):
            if c["kind"] == "single":
                case = dict(c["case"], id=k + 1)
                for key in ("obs", "row", "verdict", "member", "sat"):
                    case.pop(key, None)
                singles.append(case)
            else:
                p = dict(c["pipe"], id=k + 1, spec=k + 1)
                p.pop("events", None)
                pipes.append(p)
        if singles:
            run_singles(chk, wd, singles)
        run_pipes(chk, wd, pipes)
    finally:
        shutil.rmtree(wd, ignore_errors=True)
    return chk.finish()


# ------------------------------------------------------------------ self-test of the binding (./check C19 --selftest)
def selftest():
    """synthetic records: the judge must accept the conforming observation of each row and reject a corrupted one"""
    from harness.treeobj import N, T
    tree = N("<start>", N("<stmt>", N("<assgn>", N("<var>", T("a")), T(" := "), N("<rhs>", N("<digit>", T("1"))))))
    pj.renumber(tree)
    f_sat, f_unsat = formulas_for("ASSGN2")[0], formulas_for("ASSGN2")[4]      # exists x = "a := 1"; exists <var> = "b"

    def case(cmd, g, c, ik, forms, obs, text="a := 1", has_tree=True, empty=False, ambiguous=False, t=None):
        o = {"status": 0, "out_empty": False, "err_empty": True, "tb": False, "timeout": False, "exc": "", "where": ""}
        o.update(obs)
        return {"cmd": cmd, "g": g, "c": c, "ik": ik, "gn": "ASSGN2", "empty": empty, "ambiguous": ambiguous, "text": pj.cps(text),
                "tree": t or (tree if has_tree else DUMMY_TREE), "has_tree": has_tree, "forms": forms, "obs": o, "argv": [cmd], "files": {}}
    E = {"err_empty": False}
    table = [
        (case("check", "ok", "one", "file", [f_sat], {"status": 0}), "OK"),
        (case("check", "ok", "one", "file", [f_sat], {"status": 1}), "status"),
        (case("check", "ok", "two", "string", [f_sat, f_unsat], {"status": 1}), "OK"),
        (case("check", "ok", "two", "string", [f_sat, f_unsat], {"status": 0}), "status"),
        (case("check", "ok", "one", "json", [f_sat], {"status": 0}), "OK"),
        (case("check", "ok", "one", "json", [f_sat], {"status": 1, "tb": True}), "traceback"),
        (case("check", "ok", "one", "file", [f_sat], {"status": 1}, text="a := ", has_tree=False), "OK"),
        (case("check", "ok", "one", "file", [f_sat], {"status": 0}, text="a := ", has_tree=False), "status"),
        (case("check", "ok", "one", "file", [f_sat], {"status": 1}, text="", has_tree=False, empty=True), "OK"),
        (case("check", "ok", "one", "file", [f_sat], {"status": 1, "tb": True}, text="", has_tree=False, empty=True), "traceback"),
        (case("check", "none", "one", "file", [f_sat], dict(E, status=2)), "OK"),
        (case("check", "none", "one", "file", [f_sat], dict(E, status=1)), "status"),
        (case("parse", "ok", "one", "none", [f_sat], dict(E, status=2)), "OK"),
        (case("parse", "ok", "one", "none", [f_sat], dict(E, status=0)), "status"),
        (case("solve", "bad", "one", "none", [f_sat], dict(E, status=65)), "OK"),
        (case("solve", "bad", "one", "none", [f_sat], {"status": 65, "err_empty": True}), "no-message"),
        (case("repair", "ok", "two_onebad", "string", [f_sat], dict(E, status=65)), "OK"),
        (case("repair", "ok", "two_onebad", "string", [f_sat], dict(E, status=2)), "status"),
        (case("mutate", "bad", "one", "none", [f_sat], dict(E, status=2)), "OK"),
        (case("mutate", "bad", "one", "none", [f_sat], dict(E, status=65)), "OK"),
        (case("mutate", "bad", "one", "none", [f_sat], dict(E, status=1)), "status"),
        (case("check", "ok", "none", "file", [], dict(E, status=2)), "OK"),
        (case("repair", "ok", "one", "string", [f_sat], {"status": 1}), "OK"),
        (case("repair", "ok", "one", "string", [f_sat], {"status": 1, "tb": True}), "traceback"),
        (case("check", "illformed", "one", "file", [f_sat], {"status": 1, "tb": True}), "traceback"),
        (case("check", "ok", "one", "file", [f_sat], {"status": 1}, ambiguous=True), "OK"),
    ]
    cases = [dict(c, id=k + 1) for k, (c, _) in enumerate(table)]
    chk = Check(PID, "quick")
    wd = tlc.workdir("c19s")
    bad = 0
    try:
        judge_cases(chk, wd, cases)
        # pipelines: accepted / rejected / not a behaviour
        ev = lambda a, **kw: dict({"a": a, "spec": 1, "status": 0, "tb": False, "outs": 0, "file": 0, "timeout": False}, **kw)
        pipes = [([ev("solve", outs=2), ev("check", file=1), ev("check", file=2)], "OK"),
                 ([ev("solve", outs=2), ev("check", file=1), ev("check", file=2, status=1)], "MISMATCH"),
                 ([ev("parse", outs=1), ev("check", file=1, status=1, tb=True)], "MISMATCH"),
                 ([ev("solve", outs=2), ev("check", file=1)], "NOT-A-BEHAVIOUR"),
                 ([ev("solve", outs=1), ev("check", file=2)], "NOT-A-BEHAVIOUR"),
                 ([ev("solve", outs=0, status=1, tb=True)], "MISMATCH")]
        cf = os.path.join(wd, "pipes.json")
        with open(cf, "w") as f:
            json.dump({"grammars": grammars_json(), "mdepth": MDEPTH, "pipes": [{"id": k + 1, "events": e} for k, (e, _) in enumerate(pipes)]}, f)
        r = tlc.run_tlc("MC_C19", "CONSTANTS PDepth = 1\nINIT TInit\nNEXT TNext\nINVARIANT PipesJudged\nCHECK_DEADLOCK FALSE\n",
                        env={"CASE_FILE": cf}, wd=sub(wd, "pipes"), xmx="2g", timeout=600)
        got = {pid: v for _, pid, v, _, _ in tuples(r, "PIPE")}
        for k, (_, want) in enumerate(pipes):
            if got.get(k + 1) != want:
                bad += 1
                print("SELFTEST-FAIL pipe", k + 1, "expected", want, "got", got.get(k + 1))
    finally:
        shutil.rmtree(wd, ignore_errors=True)
    for c, (_, want) in zip(cases, table):
        if c.get("verdict") != want:
            bad += 1
            print("SELFTEST-FAIL", c["cmd"], c["g"], c["c"], c["ik"], c["obs"]["status"], "expected", want, "got", c.get("verdict"), c.get("row"))
    print("C19 selftest: %d records + 6 pipelines, %d unexpected" % (len(cases), bad))
    return 2 if bad else 0
