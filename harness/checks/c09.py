"""C09 -- negation and normal-form rewrites preserve meaning.  Formulas from the C03 catalogue are
rewritten by the implementation (-f, NNF, DNF, unique bound variables, &, |, also on n-ary
connectives); the projected results are compared by TLC with the original ASTs on every
enumerated tree (spec/MC_C09.tla, IslaSemantics!Sat)."""
import json
import os
import random
import shutil

from harness import catalogue, formulas as F, tlc
from harness import project as pj
from harness.checks import c03
from harness.common import Check, chunks, pmap, tmap, NPROC

TIERS = {"quick": {"ASSGN2": (7, 30, 60, 40), "XMLISH": (6, 26, 50, 20), "NULLABLE": (6, 14, 40, 10), "NUM": (6, 16, 40, 12)},
         "thorough": {"ASSGN2": (8, 40, 100, 80), "XMLISH": (7, 34, 80, 40), "NULLABLE": (8, 20, 60, 25), "NUM": (7, 20, 60, 30),
                      "CSVISH": (7, 22, 60, 20), "AMBIG": (6, 16, 40, 10)}}
RW1 = [("neg", "neg"), ("nnf", "same"), ("nnf-neg", "neg"), ("dnf", "same"), ("dnf-neg", "neg"), ("unique", "same")]
PID = "C09"
MODULE = "MC_C09"


def make_jobs(units, rnd):
    jobs = []
    for u in units:
        fs = [f for f in u["formulas"] if f["fam"] != "mexpr-ambiguous"]
        for f in fs:
            nb = F.max_int(f["ast"])
            for rw, kind in RW1:
                jobs.append({"unit": u["name"], "rw": rw, "kind": kind, "f": f["ast"], "ftext": f["text"], "nb": nb})
            h = rnd.choice(fs)
            k = rnd.choice(fs)
            nb = max(nb, F.max_int(h["ast"]), F.max_int(k["ast"]))
            for a in (f["ast"], h["ast"], k["ast"]):
                F.set_num_bounds_from(a, nb)
            two = {"f": f["ast"], "ftext": f["text"], "h": h["ast"], "htext": h["text"], "nb": nb, "unit": u["name"]}
            jobs.append(dict(two, rw="and", kind="and"))
            jobs.append(dict(two, rw="or", kind="or"))
            jobs.append(dict(two, rw="unique-and", kind="and"))
            fa = {"op": "and", "args": [f["ast"], h["ast"], k["ast"]]}
            three = dict(two, ktext=k["text"])
            jobs.append(dict(three, rw="nary-and-dnf", kind="same", f=fa))
            jobs.append(dict(three, rw="nary-and-neg", kind="neg", f=fa))
            jobs.append(dict(three, rw="nary-or-nnf", kind="neg", f={"op": "or", "args": [f["ast"], h["ast"], k["ast"]]}))
            jobs.append(dict(three, rw="nary-and3-dnf", kind="same",
                             f={"op": "and", "args": [{"op": "or", "args": [f["ast"], h["ast"]]}, k["ast"], f["ast"]]}))
            jobs.append(dict(three, rw="nary-and3-dnf-direct", kind="same",
                             f={"op": "and", "args": [{"op": "or", "args": [f["ast"], h["ast"]]}, k["ast"], f["ast"]]}))
            jobs.append(dict(three, rw="nary-or-dnf", kind="same",
                             f={"op": "and", "args": [{"op": "or", "args": [f["ast"], h["ast"], k["ast"]]}, k["ast"]]}))
    for i, j in enumerate(jobs):
        j["id"] = i + 1
    return jobs


def run(chk, units=None, jobs=None):
    wd = tlc.workdir("c09")
    try:
        if units is None:
            units = c03.build_cases(chk, wd, TIERS[chk.tier])
        umap = {u["name"]: u for u in units}
        if jobs is None:
            jobs = make_jobs(units, random.Random(chk.seed))
        tasks = []
        for name, u in umap.items():
            js = [j for j in jobs if j["unit"] == name]
            for c in chunks(js, NPROC * 2):
                tasks.append({"g": u["g"], "jobs": c, "unit": name})
        results = pmap("c09", tasks, timeout=900)
        per_unit = {}
        for t, res in zip(tasks, results):
            if "items" not in res:
                raise RuntimeError("C09 driver failed: %r" % (res,))
            per_unit.setdefault(t["unit"], []).extend(res["items"])
        judge_jobs = []
        for name, items in per_unit.items():
            ok = []
            for it in items:
                if "skip" in it:
                    chk.cov["unjudged"] += 1
                    chk.note("unprojectable")
                else:
                    ok.append(it)
            for c in chunks(ok, max(1, NPROC // len(per_unit))):
                judge_jobs.append((name, c))

        def judge(kj):
            k, (name, items) = kj
            u = umap[name]
            w = os.path.join(wd, "j%d" % k)
            os.makedirs(w)
            cf = os.path.join(w, "case.json")
            json.dump({"g": u["g"], "mdepth": 6, "trees": u["trees"], "items": items}, open(cf, "w"))
            return tlc.run_tlc(MODULE, "INIT Init\nNEXT Next\nINVARIANT Judged\nCHECK_DEADLOCK FALSE\n", env={"CASE_FILE": cf},
                               wd=w, xmx="3g", timeout=3000)
        rs = tmap(judge, list(enumerate(judge_jobs)))
        byid = {j["id"]: j for j in jobs}
        items_by = {it["id"]: it for items in per_unit.values() for it in items}
        n = 0
        for r in rs:
            chk.add_tlc(r)
            diffs = {}
            for _, iid, t, exp in r.tuples("DIFF"):
                diffs.setdefault(iid, []).append((t, exp))
            for _, iid, verdict, ntrue, nbad in r.tuples("ITEM"):
                n += 1
                j = byid[iid]
                u = umap[j["unit"]]
                chk.cov["evaluations"] += len(u["trees"])
                chk.cov.setdefault("rewrites", {}).setdefault(j["rw"], 0)
                chk.cov["rewrites"][j["rw"]] += 1
                if 0 < ntrue < len(u["trees"]):
                    chk.nontrivial(iid)
                if verdict == "ok":
                    chk.cov["traces_validated_against_impl"] += 1
                    continue
                it = items_by[iid]
                sig = {"rewrite": j["rw"], "kind": verdict, "exc": it["exc"].split(":")[0],
                       "numeric": F.has_numeric(j["f"])}
                rec = {"unit": j["unit"], "job": j, "result": it.get("r"), "exc": it["exc"]}
                if iid in diffs:
                    t, exp = diffs[iid][0]
                    rec["tree"] = pj.jyield(u["trees"][t - 1])
                    rec["expected_on_tree"] = exp
                chk.mismatch(sig, rec)
        if n != sum(len(c) for _, c in judge_jobs):
            raise RuntimeError("TLC judged %d items, expected %d" % (n, sum(len(c) for _, c in judge_jobs)))
        chk.cov["items"] = n
        for j in jobs[:: max(1, len(jobs) // 4)][:4]:
            chk.sample({"rewrite": j["rw"], "formula": j["ftext"], "other": j.get("htext", "")})
    finally:
        shutil.rmtree(wd, ignore_errors=True)


def main(tier):
    chk = Check(PID, tier)
    chk.cov["rule"] = ("every formula of the C03 catalogue (hand-written + schema) x rewrites {-f, NNF, NNF of negation, DNF, DNF of negation, "
                       "unique bound variables, f&h, f|h, unique(f&h), and four rewrites of ternary conjunctions/disjunctions built with the n-ary "
                       "constructors}; each result is compared on all enumerated trees; non-trivial = source formula has both verdicts")
    chk.assumptions = ["formula projection harness/project.py:formula_to_json is faithful (unknown node kinds make the item unjudged)"]
    run(chk)
    return chk.finish()


def replay(path):
    rec = json.load(open(path))
    chk = Check(PID, "quick")
    wd = tlc.workdir("c09r")
    try:
        units = c03.build_cases(chk, wd, TIERS["quick"])
    finally:
        shutil.rmtree(wd, ignore_errors=True)
    jobs = [dict(c["job"], id=i + 1) for i, c in enumerate(rec["cases"])]
    names = {j["unit"] for j in jobs}
    run(chk, [u for u in units if u["name"] in names], jobs)
    return chk.finish()
