"""C13 -- tree insertion keeps all original nodes and contains the new tree.
TLC enumerates hosts (closed trees and their prunings) and trees to insert (for every nonterminal:
small trees, their prunings, the bare open leaf) (spec/MC_C13.tla, Gen); the harness calls
insert_tree for every pair and all 8 method masks; TLC judges every result with
Relations!InsertStep."""
import json
import os
import random
import shutil

from harness import catalogue, tlc
from harness import project as pj
from harness.common import Check, chunks, pmap, tmap, NPROC

PID = "C13"
# grammar -> (depth, nodes) closed hosts, (depth, nodes) of trees to prune, (depth, nodes) of inserted trees,
#            #closed hosts, #open hosts, #inserted trees per nonterminal
TIERS = {
    "quick": dict(
        plan={"ASSGN2": (8, 30, 7, 19, 3, 7, 5, 7, 3), "XMLISH": (7, 30, 6, 20, 3, 9, 5, 7, 3), "CSVISH": (8, 22, 7, 16, 3, 6, 5, 7, 3),
              "NULLABLE": (8, 16, 7, 13, 3, 6, 4, 6, 3), "LEFTREC": (7, 22, 6, 16, 3, 6, 4, 6, 3), "AMBIG": (6, 15, 5, 13, 3, 5, 3, 5, 3),
              "RIGHTREC": (8, 20, 7, 16, 3, 6, 3, 5, 3), "MULTICHAR": (3, 8, 3, 8, 2, 3, 2, 3, 2),
              "PAIRS": (6, 16, 5, 13, 3, 6, 4, 6, 3), "MARKUP": (6, 14, 5, 12, 3, 6, 4, 6, 3), "REENTRANT": (7, 12, 6, 10, 4, 6, 6, 8, 4)},
        cap=20, task_timeout=300),
    "thorough": dict(
        plan={"ASSGN2": (9, 34, 8, 22, 4, 9, 26, 40, 6), "XMLISH": (8, 34, 7, 24, 3, 9, 26, 40, 6), "CSVISH": (8, 24, 7, 18, 3, 7, 26, 40, 6),
              "NULLABLE": (10, 20, 9, 17, 3, 6, 12, 24, 6), "LEFTREC": (8, 24, 7, 18, 3, 6, 16, 30, 6), "AMBIG": (7, 17, 6, 15, 3, 5, 12, 30, 5),
              "RIGHTREC": (9, 24, 8, 18, 3, 6, 12, 30, 5), "NUM": (8, 20, 7, 16, 3, 6, 12, 30, 5), "LENGTHS": (8, 20, 7, 16, 3, 6, 12, 30, 5),
              "TWOSTART": (10, 20, 9, 17, 3, 5, 8, 12, 4), "MULTICHAR": (3, 8, 3, 8, 2, 3, 5, 8, 3),
              "PAIRS": (7, 20, 6, 16, 3, 7, 12, 24, 5), "MARKUP": (7, 18, 6, 15, 3, 7, 12, 24, 5), "REENTRANT": (8, 16, 7, 13, 4, 7, 16, 30, 6)},
        cap=60, task_timeout=900),
}
MASKS = list(range(8))
MASK_NAMES = {1: "DIRECT_EMBEDDING", 2: "SELF_EMBEDDING", 4: "CONTEXT_ADDITION"}
GCFG = "INIT GInit\nNEXT GNext\nCHECK_DEADLOCK FALSE\n"
JCFG = "INIT JInit\nNEXT JNext\nINVARIANT Judged\nCHECK_DEADLOCK FALSE\n"
INS_ID0 = 5000


def gen(wd, name, g, b):
    w = os.path.join(wd, "gen-" + name)
    os.makedirs(w)
    cf, out = os.path.join(w, "cfg.json"), os.path.join(w, "out.json")
    with open(cf, "w") as f:
        json.dump({"g": pj.grammar_to_json(g), "start": "<start>", "depth": b[0], "nodes": b[1], "pdepth": b[2], "pnodes": b[3],
                   "idepth": b[4], "inodes": b[5]}, f)
    r = tlc.run_tlc("MC_C13", GCFG, env={"CASE_FILE": cf, "OUT_FILE": out}, wd=w, xmx="3g", timeout=900)
    with open(out) as f:
        d = json.load(f)
    key = lambda t: json.dumps(t, sort_keys=True)
    d["closed"].sort(key=key)
    d["open"].sort(key=key)
    for n in d["ins"]:
        d["ins"][n].sort(key=key)
    return r, d


def sample(rnd, xs, n):
    if len(xs) <= n:
        return list(xs)
    by = sorted(xs, key=pj.size)
    keep = by[:1] + by[-1:]
    return keep + rnd.sample(by[1:-1], max(0, n - len(keep)))


def with_ids(j, start):
    j = json.loads(json.dumps(j))
    pj.renumber(j, start)
    return j


def build_pairs(chk, wd):
    P = TIERS[chk.tier]
    names = list(P["plan"])
    gens = tmap(lambda n: gen(wd, n, catalogue.GRAMMARS[n], P["plan"][n]), names, nthreads=min(NPROC, 5))
    pairs = []
    for name, (r, d) in zip(names, gens):
        chk.add_tlc(r)
        chk.cov.setdefault("trees_enumerated", {})[name] = {"closed_hosts": len(d["closed"]), "open_hosts": len(d["open"]),
                                                             "insertable": {n: len(v) for n, v in d["ins"].items()}}
        rnd = random.Random(chk.seed * 2003 + sum(map(ord, name)))
        n_closed, n_open, n_ins = P["plan"][name][6:]
        jg = pj.grammar_to_json(catalogue.GRAMMARS[name])
        hosts = [("closed", h) for h in sample(rnd, d["closed"], n_closed)] + [("open", h) for h in sample(rnd, d["open"], n_open)]
        for nt, trees in sorted(d["ins"].items()):
            if nt == "<start>":
                continue
            bare = [t for t in trees if t["open"]]
            others = [t for t in trees if not t["open"]]
            # single-child chains down to a hole (what a match expression like "{<assgn> a}" yields) are always included
            chains = [t for t in others if _is_chain(t)][:3]
            rest = [t for t in others if t not in chains]
            for ins in bare + chains + sample(rnd, rest, n_ins - 1):
                for hk, h in hosts:
                    pairs.append({"grammar": name, "g": jg, "host_kind": hk, "ins_nt": nt,
                                  "ins_kind": "leaf" if ins["open"] else ("open" if _is_open(ins) else "closed"),
                                  "host": with_ids(h, 0), "ins": with_ids(ins, INS_ID0)})
    for k, p in enumerate(pairs):
        p["pid"] = k + 1
    return pairs


def normalize_fresh_ids(j, base=1000000):
    """ids created by the implementation during a call (>= base) depend on a global counter: rename them in
    order of first appearance so that identical results of different calls compare equal (equal ids stay equal)"""
    ren = {}
    stack = [j]
    while stack:
        n = stack.pop()
        if n["id"] >= base:
            n["id"] = ren.setdefault(n["id"], base + len(ren))
        stack.extend(reversed(n["ch"]))
    return j


def _is_chain(j):
    while len(j["ch"]) == 1:
        j = j["ch"][0]
    return j["open"]


def _is_open(j):
    return j["open"] or any(_is_open(c) for c in j["ch"])


def judge(wd, k, gs, calls):
    w = os.path.join(wd, "j%d" % k)
    os.makedirs(w)
    cf = os.path.join(w, "case.json")
    with open(cf, "w") as f:
        json.dump({"gs": gs, "calls": calls}, f)
    return tlc.run_tlc("MC_C13", JCFG, env={"CASE_FILE": cf}, wd=w, xmx="3g", timeout=3000)


def run(chk, pairs, masks=MASKS, max_num_solutions=50):
    P = TIERS[chk.tier]
    wd = tlc.workdir("c13")
    try:
        if pairs is None:
            pairs = build_pairs(chk, wd)
        bypid = {p["pid"]: p for p in pairs}
        # group by grammar so that a worker builds each grammar graph once
        tasks = []
        for name in sorted({p["grammar"] for p in pairs}):
            ps = [p for p in pairs if p["grammar"] == name]
            for c in chunks(ps, max(1, len(ps) // 6)):
                tasks.append({"g": c[0]["g"], "masks": masks, "cap": P["cap"], "max_num_solutions": max_num_solutions,
                              "pairs": [{"pid": p["pid"], "host": p["host"], "ins": p["ins"]} for p in c]})
        results = pmap("c13", tasks, timeout=P["task_timeout"])
        # insert_tree guards its results with `assert`: a call that raised is made once more in an interpreter started
        # with -O (assertions off), where the guarded result would be handed to the caller
        again = []
        for t, res in zip(tasks, results):
            for pr in res.get("pairs", []):
                ms = [c["mask"] for c in pr["calls"] if c["res"] == "exc"]
                if ms:
                    p = bypid[pr["pid"]]
                    again.append((t, pr, {"pid": p["pid"], "host": p["host"], "ins": p["ins"], "masks": ms}))
        if again:
            t2 = [{"g": t["g"], "masks": [], "cap": P["cap"], "max_num_solutions": max_num_solutions, "pairs": [pp]} for t, _, pp in again]
            for (t, pr, pp), res in zip(again, pmap("c13", t2, timeout=P["task_timeout"], env={"VERIF_PY_O": "1"})):
                for c2 in (res.get("pairs") or [{"calls": []}])[0]["calls"]:
                    chk.note("raising_calls_repeated_without_assertions")
                    if c2["res"] == "ok":
                        chk.note("raising_calls_returning_results_without_assertions")
                        for c in pr["calls"]:
                            if c["mask"] == c2["mask"]:
                                c.update(res="ok", results=c2["results"], exc_with_assertions=c["exc"])
        gnames, gs, calls, prov = [], [], [], {}
        for t, res in zip(tasks, results):
            if res.get("_timeout") or res.get("_crashed"):
                chk.cov["unjudged"] += len(t["pairs"]) * len(masks)
                chk.note("task_timeouts")
                continue
            if "pairs" not in res:
                raise RuntimeError("C13 driver failed: %r" % (res,))
            for pr in res["pairs"]:
                p = bypid[pr["pid"]]
                if p["grammar"] not in gnames:
                    gnames.append(p["grammar"])
                    gs.append(p["g"])
                uniq, keys, masks_of = [], {}, {}
                for c in pr["calls"]:
                    chk.note("calls")
                    chk.note("calls_mask_%d" % c["mask"])
                    if c["res"] == "timeout":
                        chk.cov["unjudged"] += 1
                        chk.note("call_timeouts")
                        continue
                    if c["res"] == "exc":
                        # the statement is about the results of an insertion; a call that raises has none
                        chk.note("calls_raising")
                        ex = chk.cov.setdefault("exceptions", {})
                        key = "%s mask=%d" % (c["exc"].split(":")[0], c["mask"])
                        ex[key] = ex.get(key, 0) + 1
                        if len(chk.cov.setdefault("exception_samples", [])) < 4:
                            chk.cov["exception_samples"].append({"grammar": p["grammar"], "mask": c["mask"], "exc": c["exc"],
                                                                 "host": pj.jyield(p["host"]), "ins_nt": p["ins_nt"], "host_json": p["host"], "ins_json": p["ins"]})
                        continue
                    if not c["results"]:
                        chk.note("calls_without_result")
                    for rj in c["results"]:
                        ks = json.dumps(normalize_fresh_ids(rj), sort_keys=True)
                        if ks not in keys:
                            keys[ks] = len(uniq) + 1
                            uniq.append(rj)
                        masks_of.setdefault(keys[ks], []).append(c["mask"])
                        chk.note("results_mask_%d" % c["mask"])
                calls.append({"id": p["pid"], "gi": gnames.index(p["grammar"]) + 1, "host": p["host"], "ins": p["ins"], "results": uniq})
                prov[p["pid"]] = (uniq, masks_of)
        # balance shards by number of results
        calls.sort(key=lambda c: -len(c["results"]))
        nsh = max(1, min(len(calls), max(NPROC, sum(len(c["results"]) + 1 for c in calls) // 4000)))
        shards = [[] for _ in range(nsh)]
        for k, c in enumerate(calls):
            shards[k % nsh].append(c)
        rs = tmap(lambda ks: judge(wd, ks[0], gs, ks[1]), [(k, s) for k, s in enumerate(shards) if s])
        judged = 0
        for r in rs:
            chk.add_tlc(r)
            for _, pid, nres, nbad, inok, dupids, holes in r.tuples("CALL"):
                judged += 1
                if not inok:
                    raise RuntimeError("C13: generated (host, tree) pair is not a valid input: pid %d" % pid)
                uniq, masks_of = prov[pid]
                nobs = sum(len(masks_of[k + 1]) for k in range(len(uniq)))
                chk.cov["evaluations"] += nobs
                chk.note("distinct_results_judged", nres)
                chk.note("results_with_duplicate_ids", dupids)
                chk.note("results_where_a_hole_of_the_inserted_tree_was_filled_by_another_node", holes)
                p = bypid[pid]
                if nres:
                    chk.nontrivial(pid)
                    chk.note("pairs_with_results_host_%s_ins_%s" % (p["host_kind"], p["ins_kind"]))
                chk.cov["traces_validated_against_impl"] += nobs
            for _, pid, j, why in r.tuples("MISMATCH"):
                uniq, masks_of = prov[pid]
                p = bypid[pid]
                ms = sorted(set(masks_of[j]))
                chk.cov["traces_validated_against_impl"] -= len(masks_of[j])
                # the smallest mask that produces the result names the method responsible
                single = [m for m in ms if m in (1, 2, 4)]
                sig = {"clause": why, "method": MASK_NAMES[single[0]] if single else "mask-%d" % ms[0],
                       "ins": "leaf" if p["ins_kind"] == "leaf" else "nonleaf"}
                chk.mismatch(sig, {"grammar_name": p["grammar"], "grammar": catalogue.GRAMMARS.get(p["grammar"]), "g": p["g"],
                                   "host": p["host"], "ins": p["ins"], "host_kind": p["host_kind"], "ins_kind": p["ins_kind"], "ins_nt": p["ins_nt"],
                                   "masks": ms, "max_num_solutions": max_num_solutions, "result": uniq[j - 1],
                                   "host_string": pj.jyield(p["host"]), "ins_string": pj.jyield(p["ins"]), "result_string": pj.jyield(uniq[j - 1])})
        if judged != len(calls):
            raise RuntimeError("TLC judged %d of %d calls" % (judged, len(calls)))
        chk.cov["pairs"] = len(pairs)
        with_res = [c for c in calls if c["results"]]
        for c in with_res[:: max(1, len(with_res) // 4)][:4]:
            p = bypid[c["id"]]
            chk.sample({"grammar": p["grammar"], "host": pj.jyield(p["host"]), "host_kind": p["host_kind"], "insert": p["ins_nt"] + ":" + pj.jyield(p["ins"]),
                        "ins_kind": p["ins_kind"], "results": [pj.jyield(x) for x in c["results"][:5]],
                        "masks_of_first": prov[c["id"]][1].get(1)})
    finally:
        shutil.rmtree(wd, ignore_errors=True)


def main(tier):
    chk = Check(PID, tier)
    P = TIERS[tier]
    chk.cov["rule"] = ("inputs: for %d catalogue grammars TLC enumerates closed host trees up to a height/node bound and all prunings of the trees of a "
                       "smaller bound (open hosts), and for every nonterminal except <start> the trees rooted there up to a small bound, their prunings and the "
                       "bare open leaf (what the solver inserts for a quantifier without match expression); a seeded sample of hosts x inserted trees is run "
                       "through insert_tree with all 8 method masks (DIRECT_EMBEDDING=1, SELF_EMBEDDING=2, CONTEXT_ADDITION=4), host and inserted tree carrying "
                       "disjoint explicit node ids. One evaluation = one result tree of one call judged by TLC (identical results of different masks are judged "
                       "once and counted per mask); non-trivial = (host, tree) pair with at least one result" % len(P["plan"]))
    chk.assumptions = ["node identity = node id, as in the implementation (find_node)",
                       "a call that raises (incl. the function's own assertions) or returns no result makes no claim: counted in calls_raising / calls_without_result",
                       "calls exceeding the wall-clock cap are unjudged"]
    chk.cov["bounds"] = {k: list(v) for k, v in P["plan"].items()}
    run(chk, None)
    return chk.finish(exhaustive=False)


def replay(path):
    with open(path) as f:
        rec = json.load(f)
    chk = Check(PID, "quick")
    pairs = []
    for k, c in enumerate(rec["cases"]):
        pairs.append({"pid": k + 1, "grammar": c["grammar_name"], "g": c["g"], "host_kind": c["host_kind"], "ins_kind": c["ins_kind"],
                      "ins_nt": c["ins_nt"], "host": c["host"], "ins": c["ins"]})
    run(chk, pairs, masks=sorted({m for c in rec["cases"] for m in c["masks"]}),
        max_num_solutions=rec["cases"][0].get("max_num_solutions", 50))
    return chk.finish()
