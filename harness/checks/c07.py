"""C07 -- unparsed constraints parse back to the same constraint.
Sources: the core-syntax texts of the C03 catalogue, the sugared texts of C08 (free nonterminals incl.
<start>, XPath, omitted names), formulas exercising every SMT-LIB operator with a variable, string
literals / match-expression terminals that need escaping, predicates with string/int arguments and
numeric quantifiers.  parse -> unparse -> parse -> unparse is run by the implementation; TLC
(MC_C09, RoundTripStep) requires: no exception, the implementation's own equality of both formulas,
identical texts, and equal verdicts of both projected formulas on every enumerated tree."""
import json
import re
import os
import random
import shutil

from harness import catalogue, formulas as F, smt, sugar, tlc
from harness import project as pj
from harness.checks import c03
from harness.common import Check, chunks, pmap, tmap, NPROC
from harness.formulas import FA, EX, SMT
from harness.smt import A, I, S, V

TIERS = {"quick": {"ASSGN2": (7, 24, 40, 40), "XMLISH": (6, 22, 30, 20), "NUM": (6, 14, 30, 10), "QUOTED": (6, 16, 40, 8)},
         "thorough": {"ASSGN2": (7, 30, 150, 250), "XMLISH": (7, 30, 100, 120), "NUM": (6, 16, 80, 60), "NULLABLE": (8, 20, 60, 40),
                      "CSVISH": (7, 22, 80, 40), "QUOTED": (7, 22, 100, 30)}}
PID = "C07"
ESC_STRINGS = ['"', "\\", "a\"b", "\n", "\t", "a\\nb", "{", "}", "[", "]", "ä", "<x>", " ", "'", "\\\"", "x y", "\U0001F600", "a\U0001F600b", "\uffff", "\u20ac"]


def operator_sources(name, g, rnd, scale):
    """one quantified formula per SMT-LIB operator (from the C05 grid) with a variable inside"""
    nts = [k for k in g if k != "<start>"]
    out = []
    terms = [t for fam, t in smt.grid(rnd.randrange(10 ** 6), 0.15 * scale) if fam != "bignum"]
    rnd.shuffle(terms)
    seen = set()
    from harness.drivers.c05 import sort_of
    for t in terms:
        ops = tuple(sorted(smt.ops_in(t)))
        if ops in seen or "str.<" in ops:
            continue
        seen.add(ops)
        nt = rnd.choice(nts)
        replaced = [False]

        def put_var(u):
            if u["k"] == "str" and not replaced[0]:
                replaced[0] = True
                return V("x")
            if u["k"] == "app" and u["f"] != "re.range":
                return dict(u, args=[put_var(a) for a in u["args"]])
            return u
        tv = put_var(t)
        so = sort_of(tv)
        atom = tv if so == "bool" else A("=", tv, I(1) if so == "int" else S("a"))
        out.append(("smt-operator", F.text(FA(nt, "x", SMT(atom)))))
    return out


def escape_sources(name, g, rnd):
    nts = [k for k in g if k != "<start>"]
    out = []
    for s in ESC_STRINGS:
        nt = rnd.choice(nts)
        out.append(("string-escape", F.text(EX(nt, "x", SMT(A("=", V("x"), S(s)))))))
        out.append(("string-escape", F.text(FA(nt, "x", SMT(A("str.contains", V("x"), S(s + s)))))))
    return out


def run(chk, units=None, jobs=None):
    wd = tlc.workdir("c07")
    try:
        if units is None:
            units = c03.build_cases(chk, wd, TIERS[chk.tier])
            rnd = random.Random(chk.seed)
            jobs = []
            for u in units:
                g = catalogue.GRAMMARS[u["name"]]
                srcs = [("core-" + f["fam"], f["text"]) for f in u["formulas"]]
                srcs += [("sugar-" + fam, text) for fam, text, _ in sugar.pairs(u["name"], g, chk.seed, 12 if chk.tier == "quick" else 60)]
                srcs += operator_sources(u["name"], g, rnd, 1 if chk.tier == "quick" else 4)
                srcs += escape_sources(u["name"], g, rnd)
                if u["name"].startswith("ASSGN"):
                    srcs += [("free-nt-start", 'inside(<var>, <start>)'), ("free-nt-start", 'str.len(<start>) > 3'),
                             ("mexpr-escape", 'forall <assgn> a="{<var> l} := {<rhs> r}" in start: (= l r)'),
                             ("pred-args", 'forall <var> a in start: forall <var> b in start: (level("GE", "<stmt>", a, b) or nth("2", a, b))'),
                             ("const-decl", 'const start: <start>; forall <var> v in start: (= v "a")'),
                             ("const-decl", 'const c: <start>; exists <assgn> a="{<var> l} := <rhs>" in c: (= l "b")'),
                             ("numeric", 'exists int n: (count(start, "<var>", n) and str.to.int(n) > 1)'),
                             ("numeric", 'forall int n: (not count(start, "<var>", n) or str.to.int(n) < 5)')]
                for fam, text in srcs:
                    jobs.append({"unit": u["name"], "fam": fam, "src": text})
            for i, j in enumerate(jobs):
                j["id"] = i + 1
        umap = {u["name"]: u for u in units}
        tasks = []
        for name, u in umap.items():
            js = [j for j in jobs if j["unit"] == name]
            for c in chunks(js, NPROC * 3):
                tasks.append({"g": u["g"], "jobs": c, "unit": name})
        per_unit = {}
        pending = tasks
        for _round in range(4):
            results = pmap("c07", pending, timeout=900)
            again = []
            for t, res in zip(pending, results):
                if "items" not in res:
                    raise RuntimeError("C07 driver failed: %r" % (res,))
                retry_ids = {it["id"] for it in res["items"] if it.get("retry")}
                per_unit.setdefault(t["unit"], []).extend(it for it in res["items"] if not it.get("retry"))
                if retry_ids:
                    again.append({"g": t["g"], "unit": t["unit"], "jobs": [j for j in t["jobs"] if j["id"] in retry_ids]})
            pending = again
            if not pending:
                break
        byid = {j["id"]: j for j in jobs}
        judge_jobs = []
        for name, items in per_unit.items():
            ok = []
            for it in items:
                if "skip" in it:
                    chk.cov["unjudged"] += 1
                    chk.note("skipped_" + ("unprojectable" if not it["skip"].startswith("source") else "source_rejected"))
                else:
                    ok.append(it)
            for c in chunks(ok, max(1, NPROC // max(1, len(per_unit)))):
                judge_jobs.append((name, c))

        def judge(kj):
            k, (name, items) = kj
            u = umap[name]
            w = os.path.join(wd, "j%d" % k)
            os.makedirs(w)
            cf = os.path.join(w, "case.json")
            json.dump({"g": u["g"], "mdepth": 6, "trees": u["trees"], "items": items}, open(cf, "w"))
            return tlc.run_tlc("MC_C09", "INIT Init\nNEXT Next\nINVARIANT Judged\nCHECK_DEADLOCK FALSE\n", env={"CASE_FILE": cf},
                               wd=w, xmx="3g", timeout=3000)
        rs = tmap(judge, list(enumerate(judge_jobs)))
        items_by = {it["id"]: it for items in per_unit.values() for it in items}
        n = 0
        for r in rs:
            chk.add_tlc(r)
            reqs = {iid: names for _, iid, names in r.tuples("REQ")}
            for _, iid, verdict, ntrue, nbad in r.tuples("ITEM"):
                n += 1
                j = byid[iid]
                u = umap[j["unit"]]
                chk.cov["evaluations"] += len(u["trees"])
                chk.cov.setdefault("families", {}).setdefault(j["fam"], 0)
                chk.cov["families"][j["fam"]] += 1
                if 0 < ntrue < len(u["trees"]):
                    chk.nontrivial(iid)
                if verdict == "ok":
                    chk.cov["traces_validated_against_impl"] += 1
                    continue
                it = items_by[iid]
                exc = it["exc"].split(":")[0]
                sig = {"clause": verdict if verdict != "req-failed" else "+".join(sorted(reqs.get(iid, []))),
                       "exc": exc, "family": j["fam"].split("-")[0] + ("-" + j["fam"].split("-", 1)[1] if j["fam"].startswith(("smt", "string", "free", "mexpr", "pred")) else "")}
                u1 = it.get("u1") or ""
                sig["feature"] = ("str.<" if "(str.< " in u1 else "ite" if "(if " in u1 else
                                  "not-inside-s-expression" if re.search(r"\((?:and|or|xor|=>|=|ite) [^\n]*\(not ", u1) else
                                  "negated-smt-connective" if re.search(r"\(not \((?:and|or) ", u1) else "")
                chk.mismatch(sig, {"unit": j["unit"], "family": j["fam"], "source": j["src"], "unparsed": it.get("u1"), "unparsed_again": it.get("u2"),
                                   "exc": it["exc"], "job": j})
        if n != sum(len(c) for _, c in judge_jobs):
            raise RuntimeError("TLC judged %d items, expected %d" % (n, sum(len(c) for _, c in judge_jobs)))
        chk.cov["items"] = n
        for j in jobs[:: max(1, len(jobs) // 4)][:4]:
            it = items_by.get(j["id"], {})
            chk.sample({"source": j["src"], "unparsed": it.get("u1", "")})
    finally:
        shutil.rmtree(wd, ignore_errors=True)


def main(tier):
    chk = Check(PID, tier)
    chk.cov["rule"] = ("sources: C03 catalogue in core syntax, C08 sugared texts (free nonterminals incl. <start>, XPath, omitted names), one formula per "
                       "SMT-LIB operator combination of the C05 grid with a variable inside, 16 string literals needing escapes, predicates with string/int "
                       "arguments, numeric quantifiers; each source: parse, unparse, parse, unparse; non-trivial = formula with both verdicts on the trees")
    chk.assumptions = ["sources that parse_isla itself rejects are skipped (syntax acceptance is C08's subject)",
                       "formula equality is the implementation's own ==, recorded as an observation"]
    run(chk)
    return chk.finish()


def replay(path):
    rec = json.load(open(path))
    chk = Check(PID, "quick")
    wd = tlc.workdir("c07r")
    try:
        units = c03.build_cases(chk, wd, TIERS["quick"])
    finally:
        shutil.rmtree(wd, ignore_errors=True)
    jobs = [dict(c["job"], id=i + 1) for i, c in enumerate(rec["cases"])]
    names = {j["unit"] for j in jobs}
    run(chk, [u for u in units if u["name"] in names], jobs)
    return chk.finish()
