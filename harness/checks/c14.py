"""C14 -- helpers that build trees to a target meet the target.
fixedlen: create_fixed_length_tree for every (catalogue grammar, nonterminal, length 0..L) of the grid TLC
writes (with the feasibility of each length, for the completeness diagnostic), several seeds;
count: the completion the `count` predicate proposes for TLC-enumerated open trees x needles x target
counts; numeric: the tree ISLaSolver.extract_model_value_int_var builds for an integer model value.
TLC judges every result with Relations!FixedLenStep / CountCompleteStep / NumericParseStep."""
import json
import os
import random
import shutil

from harness import catalogue, tlc
from harness import project as pj
from harness.common import Check, chunks, pmap, tmap, NPROC

PID = "C14"
DIGITS = list("0123456789")
NUMERIC_GRAMMARS = {
    "DEC": ({"<start>": ["<num>"], "<num>": ["<digit><num>", "<digit>"], "<digit>": DIGITS}, "<num>"),
    "NOLEADZERO": ({"<start>": ["<num>"], "<num>": ["<nz><digits>", "<digit>"], "<digits>": ["<digit><digits>", "<digit>"],
                    "<nz>": DIGITS[1:], "<digit>": DIGITS}, "<num>"),
    "PADDED3": ({"<start>": ["<num>"], "<num>": ["<digit><digit><digit>"], "<digit>": DIGITS}, "<num>"),
    "SIGNED": ({"<start>": ["<num>"], "<num>": ["<sign><digits>"], "<sign>": ["+", "-"],
                "<digits>": ["<digit><digits>", "<digit>"], "<digit>": DIGITS}, "<num>"),
    "OPTSIGN": ({"<start>": ["<num>"], "<num>": ["-<digits>", "<digits>"],
                 "<digits>": ["<digit><digits>", "<digit>"], "<digit>": DIGITS}, "<num>"),
    "NUM": (catalogue.NUM, "<int>"),
    "LENGTHS": (catalogue.LENGTHS, "<len>"),
}
VALUES = [0, 1, 2, 3, 7, 9, 10, 12, 13, 20, 33, 99, 100, 101, 123, 255, 999, 1000, 1023, 12345, 3210, 123456789,
          -1, -2, -10, -17, -123, -3210, -123456789]
# count: grammar -> (root nonterminals, needles, prune depth, prune nodes)
COUNT_PLAN = {
    "CSVISH": (["<start>", "<rows>", "<row>"], ["<row>", "<field>", "<rows>"], 7, 14),
    "ASSGN2": (["<start>", "<stmt>"], ["<assgn>", "<var>", "<digit>", "<stmt>"], 7, 19),
    "XMLISH": (["<start>", "<inner>"], ["<tree>", "<id>", "<text>"], 6, 18),
    "RIGHTREC": (["<start>", "<L>"], ["<I>", "<L>"], 7, 14),
    "NULLABLE": (["<start>", "<A>"], ["<A>", "<B>"], 7, 11),
    "AMBIG": (["<start>", "<A>"], ["<A>"], 5, 11),
    "LEFTREC": (["<start>", "<E>"], ["<T>", "<E>"], 6, 14),
}
FIXED = ["NULLABLE", "AMBIG", "LEFTREC", "RIGHTREC", "MULTICHAR", "XMLISH", "CSVISH", "NUM", "ASSGN2", "TWOSTART", "LENGTHS", "SHAREDALT", "PAIRS"]
TIERS = {
    "quick": dict(L=8, fixed_seeds=5, count_trees=18, count_nums=[0, 1, 2, 3, 4], count_seeds=1, cap=15, task_timeout=400, values=VALUES[::2]),
    "thorough": dict(L=10, fixed_seeds=16, count_trees=120, count_nums=[0, 1, 2, 3, 4, 5, 6], count_seeds=2, cap=45, task_timeout=1500, values=VALUES),
}
GCFG = "INIT GInit\nNEXT GNext\nCHECK_DEADLOCK FALSE\n"
JCFG = "INIT JInit\nNEXT JNext\nINVARIANT Judged\nCHECK_DEADLOCK FALSE\n"


def grammar_of(name):
    return NUMERIC_GRAMMARS[name][0] if name in NUMERIC_GRAMMARS and name not in catalogue.GRAMMARS else catalogue.GRAMMARS[name]


def gen(wd, name, L, roots, pdepth, pnodes):
    w = os.path.join(wd, "gen-" + name)
    os.makedirs(w)
    cf, out = os.path.join(w, "cfg.json"), os.path.join(w, "out.json")
    with open(cf, "w") as f:
        json.dump({"g": pj.grammar_to_json(grammar_of(name)), "L": L, "roots": roots, "pdepth": pdepth, "pnodes": pnodes}, f)
    r = tlc.run_tlc("MC_C14", GCFG, env={"CASE_FILE": cf, "OUT_FILE": out}, wd=w, xmx="3g", timeout=900)
    with open(out) as f:
        d = json.load(f)
    d["grid"].sort(key=lambda x: (x["nt"], x["len"]))
    # a record with an empty domain is serialised as an empty array
    d["open"] = d["open"] if isinstance(d["open"], dict) else {}
    for n in d["open"]:
        d["open"][n].sort(key=lambda t: json.dumps(t, sort_keys=True))
    return r, d


def sample(rnd, xs, n):
    if len(xs) <= n:
        return list(xs)
    by = sorted(xs, key=pj.size)
    keep = by[:2] + by[-2:]
    return keep + rnd.sample(by[2:-2], max(0, n - len(keep)))


def build_rows(chk, wd):
    P = TIERS[chk.tier]
    names = sorted(set(FIXED) | set(COUNT_PLAN))
    gens = tmap(lambda n: gen(wd, n, P["L"], *(COUNT_PLAN[n][0], COUNT_PLAN[n][2], COUNT_PLAN[n][3]) if n in COUNT_PLAN else ([], 1, 1)),
                names, nthreads=min(NPROC, 5))
    rows = []
    for name, (r, d) in zip(names, gens):
        chk.add_tlc(r)
        rnd = random.Random(chk.seed * 3001 + sum(map(ord, name)))
        if name in FIXED:
            for cell in d["grid"]:
                for s in range(P["fixed_seeds"]):
                    rows.append({"grammar": name, "kind": "fixedlen", "nt": cell["nt"], "len": cell["len"], "feasible": cell["feasible"],
                                 "seed": rnd.randrange(1, 10 ** 6), "as_tree": bool(s % 2)})
        if name in COUNT_PLAN:
            roots, needles, _, _ = COUNT_PLAN[name]
            chk.cov.setdefault("open_trees_enumerated", {})[name] = {n: len(v) for n, v in d["open"].items()}
            for root in roots:
                trees = sample(rnd, d["open"].get(root, []), P["count_trees"])
                for t in trees:
                    t = json.loads(json.dumps(t))
                    pj.renumber(t)
                    for needle in needles:
                        if needle == root:
                            continue          # DESIGN.md 6.1: needle = root label is the one ambiguous point of count
                        for num in P["count_nums"]:
                            for s in range(P["count_seeds"]):
                                rows.append({"grammar": name, "kind": "count", "arg": t, "needle": needle, "num": num,
                                             "num_as": ["leaf", "str", "closed"][(num + s) % 3], "seed": rnd.randrange(1, 10 ** 6)})
    for name, (g, nt) in NUMERIC_GRAMMARS.items():
        for v in P["values"]:
            rows.append({"grammar": name, "kind": "numeric", "nt": nt, "v": v})
    for k, r in enumerate(rows):
        r["id"] = k + 1
    return rows


def judge(wd, k, gs, rows):
    w = os.path.join(wd, "j%d" % k)
    os.makedirs(w)
    cf = os.path.join(w, "case.json")
    with open(cf, "w") as f:
        json.dump({"gs": gs, "rows": rows}, f)
    return tlc.run_tlc("MC_C14", JCFG, env={"CASE_FILE": cf}, wd=w, xmx="3g", timeout=3000)


def run(chk, rows):
    P = TIERS[chk.tier]
    wd = tlc.workdir("c14")
    try:
        if rows is None:
            rows = build_rows(chk, wd)
        byid = {r["id"]: r for r in rows}
        tasks = []
        for name in sorted({r["grammar"] for r in rows}):
            for kind in ("fixedlen", "count", "numeric"):
                rs = [r for r in rows if r["grammar"] == name and r["kind"] == kind]
                if not rs:
                    continue
                jg = rs[0].get("g") or pj.grammar_to_json(grammar_of(name))
                n = {"fixedlen": 2, "count": max(2, len(rs) // 60), "numeric": 1}[kind]
                for c in chunks(rs, n):
                    tasks.append({"g": jg, "grammar": name, "cap": P["cap"],
                                  "rows": [{k: v for k, v in r.items() if k not in ("grammar", "feasible", "g")} for r in c]})
        results = pmap("c14", tasks, timeout=P["task_timeout"])
        gnames, gs, jrows, obs = [], [], [], {}
        for t, res in zip(tasks, results):
            if res.get("_timeout") or res.get("_crashed"):
                chk.cov["unjudged"] += len(t["rows"])
                chk.note("task_timeouts")
                continue
            if "rows" not in res:
                raise RuntimeError("C14 driver failed: %r" % (res,))
            if t["grammar"] not in gnames:
                gnames.append(t["grammar"])
                gs.append(t["g"])
            gi = gnames.index(t["grammar"]) + 1
            for o in res["rows"]:
                r = byid[o["id"]]
                obs[r["id"]] = o
                kind = r["kind"]
                chk.note("calls_" + kind)
                if o["res"] == "timeout":
                    chk.cov["unjudged"] += 1
                    chk.note("call_timeouts_" + kind)
                    continue
                if o["res"] == "exc":
                    # the statement is about the trees that are built; a call that raises builds none
                    chk.note("calls_raising_" + kind)
                    ex = chk.cov.setdefault("exceptions", {})
                    key = "%s %s" % (kind, o["exc"].split(":")[0])
                    ex[key] = ex.get(key, 0) + 1
                    if sum(1 for s in chk.cov.setdefault("exception_samples", []) if s["key"] == key) < 2:
                        chk.cov["exception_samples"].append({"key": key, "grammar": r["grammar"], "exc": o["exc"],
                                                             "input": {k: (pj.jyield(v) if k == "arg" else v) for k, v in r.items() if k not in ("id", "g")}})
                    continue
                if kind == "fixedlen":
                    jrows.append({"id": r["id"], "gi": gi, "kind": kind, "nt": r["nt"], "len": r["len"], "r": o["r"]})
                elif kind == "count":
                    chk.note("count_answer_" + o["answer"])
                    if o["answer"] == "completion":
                        jrows.append({"id": r["id"], "gi": gi, "kind": kind, "arg": r["arg"], "needle": r["needle"], "num": r["num"], "t": o["t"]})
                else:
                    jrows.append({"id": r["id"], "gi": gi, "kind": kind, "nt": r["nt"], "v": r["v"], "t": o["t"]})
        shards = chunks(jrows, max(1, min(len(jrows), NPROC))) if jrows else []
        rs = tmap(lambda ks: judge(wd, ks[0], gs, ks[1]), list(enumerate(shards)))
        judged = 0
        for res in rs:
            chk.add_tlc(res)
            for _, rid, why, info, inok in res.tuples("ROW"):
                judged += 1
                r, o = byid[rid], obs[rid]
                if not inok:
                    raise RuntimeError("C14: generated input is outside the property's domain: %r" % (r,))
                chk.cov["evaluations"] += 1
                chk.note("judged_" + r["kind"])
                if r["kind"] == "fixedlen":
                    if info:
                        chk.note("fixedlen_trees_built")
                        chk.nontrivial(("fixedlen", r["grammar"], r["nt"], r["len"]))
                    elif r["feasible"]:
                        # diagnostic only: the property promises soundness of results, not completeness
                        chk.note("fixedlen_none_although_a_string_of_that_length_exists")
                        dg = chk.cov.setdefault("fixedlen_incomplete_cells", [])
                        cell = [r["grammar"], r["nt"], r["len"]]
                        if cell not in dg and len(dg) < 40:
                            dg.append(cell)
                    else:
                        chk.note("fixedlen_none_and_no_such_string")
                elif r["kind"] == "count":
                    chk.nontrivial(("count", r["grammar"], r["needle"], r["num"], json.dumps(r["arg"], sort_keys=True)))
                    if not info:
                        chk.note("count_completion_does_not_extend_the_argument")
                else:
                    chk.nontrivial(("numeric", r["grammar"], r["v"]))
                if why == "OK":
                    chk.cov["traces_validated_against_impl"] += 1
                else:
                    sig = {"kind": r["kind"], "clause": why}
                    if r["kind"] == "fixedlen":
                        sig["grammar"] = r["grammar"]
                    rec = dict(r, g=pj.grammar_to_json(grammar_of(r["grammar"])) if "g" not in r else r["g"],
                               grammar_def=grammar_of(r["grammar"]) if r["grammar"] in catalogue.GRAMMARS or r["grammar"] in NUMERIC_GRAMMARS else None,
                               observed=o)
                    tj = o.get("t") or (o.get("r") or {}).get("t")
                    if tj:
                        rec["result_string"] = pj.jyield(tj)
                    if "arg" in r:
                        rec["arg_string"] = pj.jyield(r["arg"])
                    chk.mismatch(sig, rec)
        if judged != len(jrows):
            raise RuntimeError("TLC judged %d of %d rows" % (judged, len(jrows)))
        for kind in ("fixedlen", "count", "numeric"):
            ks = [j for j in jrows if j["kind"] == kind and (kind != "fixedlen" or not j["r"]["none"])]
            for j in ks[:: max(1, len(ks) // 2)][:2]:
                r = byid[j["id"]]
                s = {"kind": kind, "grammar": r["grammar"]}
                if kind == "fixedlen":
                    s.update(nt=r["nt"], len=r["len"], result=pj.jyield(j["r"]["t"]))
                elif kind == "count":
                    s.update(arg=pj.jyield(r["arg"]), needle=r["needle"], num=r["num"], proposed=pj.jyield(j["t"]))
                else:
                    s.update(nt=r["nt"], value=r["v"], result=pj.jyield(j["t"]))
                chk.sample(s)
    finally:
        shutil.rmtree(wd, ignore_errors=True)


def main(tier):
    chk = Check(PID, tier)
    P = TIERS[tier]
    chk.cov["rule"] = ("fixedlen: create_fixed_length_tree for every nonterminal of %d catalogue grammars (nullable, left/right recursive, ambiguous, "
                       "multi-character terminals) x target length 0..%d x %d seeds, start given as name and as open leaf; TLC also computes which lengths "
                       "are derivable (length sets by Kleene iteration) for the completeness diagnostic. count: open trees (all prunings of the trees of "
                       "each root nonterminal up to a bound, seeded sample of %d per root) x needle nonterminals x target counts %s, the number given as "
                       "string / open leaf / closed leaf; only answers proposing a completion {in_tree: tree} are judged, the other answers are tallied. "
                       "numeric: ISLaSolver.extract_model_value_int_var for %d integer values x 7 numeral grammars (plain, no leading zero, fixed width 3, "
                       "mandatory sign, optional minus, 4-digit alphabets). One evaluation = one result judged by TLC; non-trivial = distinct input for "
                       "which a tree was built" % (len(FIXED), P["L"], P["fixed_seeds"], P["count_trees"], P["count_nums"], len(P["values"])))
    chk.assumptions = ["a None result, an exception or a non-completion answer builds no tree and makes no claim (tallied: fixedlen_none_*, calls_raising_*, count_answer_*)",
                       "count: needle = label of the argument's root is not generated (DESIGN.md 6.1)",
                       "numeric values stay below 2^31; numerals are read as [+-]?digits"]
    run(chk, None)
    return chk.finish(exhaustive=False)


def replay(path):
    with open(path) as f:
        rec = json.load(f)
    chk = Check(PID, "quick")
    rows = []
    for k, c in enumerate(rec["cases"]):
        r = {k2: v for k2, v in c.items() if k2 not in ("observed", "grammar_def", "result_string", "arg_string")}
        r["id"] = k + 1
        rows.append(r)
    run(chk, rows)
    return chk.finish()
