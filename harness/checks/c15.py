"""C15 -- integer intervals inferred from a regular expression are exactly the numbers it
matches; compressing a regular-expression concatenation keeps the language.

TLC (spec/MC_C15.tla, Gen) enumerates the documented grammar of numeric_intervals_from_regex to
nesting depth 1 and all short concatenation lists; deeper regular expressions and random
concatenation lists are generated here from the same grammar with a seeded generator.  The
driver calls the implementation; TLC judges every result with spec/RegexInt.tla +
SmtLib!Matches (soundness, exactness, language equality of the compressed list)."""
import json
import os
import random
import shutil

from harness import smt, tlc
from harness.common import Check, chunks, pmap, tmap, NPROC
from harness.smt import A, S

TIERS = {"quick": dict(palette=[48, 49, 53, 57], l1_sample=600, deep=300, deep_inner=100, extended=True,
                       cc_len=3, cc_random=500, ls=2, jmax=14, lemma_every=6, Lcc=5),
         "thorough": dict(palette=[48, 49, 50, 53, 57], l1_sample=None, deep=2500, deep_inner=600, extended=True,
                          cc_len=4, cc_random=4000, ls=3, jmax=16, lemma_every=8, Lcc=6)}
# development aid: VERIF_C15_SCALE=0.3 runs a tier with 30% of its sampled/random cases
SCALE = float(os.environ.get("VERIF_C15_SCALE", "1") or 1)
JCFG = ("CONSTANTS DigitPalette = {48}\nCcLen = 1\nINIT JInit\nNEXT JNext\nINVARIANT Judged\nINVARIANT Count\n"
        "CHECK_DEADLOCK FALSE\n")


# ------------------------------------------------------------------ terms
def Re(s):
    return A("str.to_re", S(s))


def Rng(a, b):
    return A("re.range", S(a), S(b))


def Star(r):
    return A("re.*", r)


def Plus(r):
    return A("re.+", r)


def Opt(r):
    return A("re.opt", r)


def Union(*rs):
    return A("re.union", *rs)


def Cat(*rs):
    return rs[0] if len(rs) == 1 else A("re.++", *rs)


D09, D19 = Rng("0", "9"), Rng("1", "9")
ZEROES = [Star(Re("0")), Plus(Re("0"))]
FULL = [Star(D09), Plus(D09)]
PM = [Re("+"), Re("-")]

# the examples of the docstring of numeric_intervals_from_regex (pinned: run in every tier)
DOCTESTS = [
    Re("1"), Star(D09), Cat(Plus(Re("0")), Re("0"), Star(Rng("0", "0"))), Union(Rng("1", "4"), Re("5")),
    Union(Re("6"), Rng("1", "4")), Cat(Union(Re("+"), Re("-")), D09), Cat(Opt(Re("-")), D09), Cat(Opt(Re("+")), D09),
    Cat(Union(Re("+"), Re("-")), Rng("2", "9")), Cat(Star(Re("0")), D19, Star(D09)), Cat(D19, Plus(D09)),
    Cat(Re("-"), D19, Plus(D09)), Cat(Cat(D19, Star(D09)), D09),
    # frequent shapes of integer nonterminals in grammars
    Cat(Opt(Re("-")), D19, Star(D09)), Union(Re("0"), Cat(D19, Star(D09))), Union(Re("0"), Cat(Opt(Re("-")), D19, Star(D09))),
    Cat(Opt(Re("-")), Plus(D09)), Cat(Re("-"), Plus(D09)), Plus(D09), Cat(D09, D09),
]

# outside the documented shape: results are recorded as diagnostics, never as violations
EXTENDED = [
    Re("12"), Re("007"), Re("-5"), Re("+5"), Re(""), Re("1_0"), Re(" 5"), Cat(D09, D09, D09), Cat(Rng("2", "7"), Star(D09)),
    Star(D19), Star(Re("1")), Plus(Rng("0", "1")), Opt(D09), Cat(Opt(D19), D09), Union(Re("10"), Rng("0", "9")),
    Cat(Re("1"), Re("0")), Cat(D19, D09), Cat(Re("-"), Re("12")), Star(Union(Re("0"), Re("1"))), Cat(Re("0"), Re("x")),
    Rng("9", "0"), Rng("a", "z"), Cat(Opt(Re("-")), Opt(Re("0")), D19), A("re.loop", D09, p=(1, 3)), A("re.allchar"),
]


def gen_regex(rnd, palette, d, lead, inner_signs):
    """a regular expression of the documented grammar; `lead`: a sign may stand in front of it
    (it is in leading position of the whole expression); inner_signs: signs anywhere the grammar
    allows them"""
    digs = [chr(c) for c in palette]
    c = rnd.random()
    if d == 0 or c < 0.22:
        k = rnd.random()
        if k < 0.3:
            return Re(rnd.choice(digs))
        if k < 0.6:
            a, b = sorted([rnd.choice(digs), rnd.choice(digs)])
            return Rng(a, b)
        return rnd.choice(ZEROES + FULL)
    if c < 0.45:
        return Union(*[gen_regex(rnd, palette, d - 1, lead, inner_signs) for _ in range(rnd.choice([2, 2, 3]))])
    signs = lead or inner_signs
    zero_elems = ZEROES + [Re("0")]

    def seq_zeroes(lo):
        return [rnd.choice(zero_elems) for _ in range(rnd.choice([lo, 1, 1, 2, 3]))]

    def opt_pm():
        if not signs:
            return []
        return rnd.choice([[], [], [Re("+")], [Re("-")], [Opt(Re("+"))], [Opt(Re("-"))]])

    def first_union():
        pool = zero_elems + (PM + PM if signs else [])
        return Union(*[rnd.choice(pool) for _ in range(rnd.choice([2, 2, 3]))])
    form = rnd.choice([1, 2, 2, 3, 4, 5])
    if form == 1:
        xs = opt_pm() + seq_zeroes(0) + [rnd.choice([D09, D19]), rnd.choice(FULL)]
    elif form == 2:
        xs = opt_pm() + seq_zeroes(1) + [gen_regex(rnd, palette, d - 1, False, inner_signs)]
    elif form == 3:
        xs = [first_union(), rnd.choice([D09, D19]), rnd.choice(FULL)]
    elif form == 4:
        xs = [first_union(), gen_regex(rnd, palette, d - 1, False, inner_signs)]
    else:
        xs = opt_pm() + [gen_regex(rnd, palette, d - 1, False, inner_signs)]
    return Cat(*xs)


def gen_cc(rnd):
    """a list of concatenation elements (none of them a concatenation itself) with many
    neighbours that share their star/plus child"""
    atoms = [Re("a"), Re("b"), Re("ab"), Rng("a", "b"), Union(Re("a"), Re("b")), Re(""), Opt(Re("a")), Star(Re("a")),
             Plus(Re("b")), Star(Cat(Re("a"), Re("b"))), Union(Re("a"), Re("")), Re("0"), Rng("0", "9"), Rng("0", "1")]
    n = rnd.choice([1, 2, 2, 3, 3, 4, 4, 5, 6])
    xs = []
    base = rnd.choice(atoms)
    for _ in range(n):
        if rnd.random() < 0.3:
            base = rnd.choice(atoms)
        xs.append(rnd.choice([base, base, Star(base), Star(base), Plus(base), Plus(base), Opt(base), Star(Star(base)),
                              Plus(Star(base))]))
    return xs


def chars_of(t, acc):
    if t["k"] == "str":
        acc.update(t["s"])
    elif t["k"] == "app":
        if t["f"] == "re.range" and all(a["k"] == "str" and len(a["s"]) == 1 for a in t["args"]):
            lo, hi = t["args"][0]["s"][0], t["args"][1]["s"][0]
            acc.update(range(lo, min(hi, lo + 3) + 1))     # a few members of the range
            acc.add(hi)
        for a in t["args"]:
            chars_of(a, acc)
    return acc


# -------------------------------------------------- root-cause coordinates (signatures only)
def flat_concat(t):
    if t["k"] == "app" and t["f"] == "re.++":
        out = []
        for a in t["args"]:
            out.extend(flat_concat(a))
        return out
    return [t]


def is_sign(t):
    return t["k"] == "app" and t["f"] == "str.to_re" and t["args"][0].get("s") in ([43], [45])


def inner_sign(t, lead=True):
    """a sign literal occurs somewhere else than in front of the whole expression"""
    if t["k"] != "app":
        return False
    if is_sign(t):
        return not lead
    if t["f"] == "re.++":
        elems = flat_concat(t)
        return any(inner_sign(e, lead and k == 0) for k, e in enumerate(elems))
    if t["f"] in ("re.union", "re.opt"):
        return any(inner_sign(a, lead) for a in t["args"])
    return any(inner_sign(a, False) for a in t["args"])


def signature(c, clause):
    if c["kind"] == "cc":
        return {"kind": "cc", "clause": clause, "exc": c.get("exc", "").split(":")[0]}
    return {"kind": "iv", "clause": clause, "exc": c.get("exc", "").split(":")[0],
            "inner_sign": inner_sign(c["term"]),
            "full_line": any(iv["loinf"] and iv["hiinf"] for iv in c.get("iv", []))}


def tuples_ml(out, tag):
    """PrintT(<<"tag", ...>>) values in TLC's output.  TLC prints a long tuple over several
    lines (starting with '<< "tag",'); TlcResult.tuples only sees one-line tuples."""
    res = []
    lines = out.splitlines()
    k = 0
    heads = ('<<"%s"' % tag, '<< "%s"' % tag)
    while k < len(lines):
        line = lines[k]
        k += 1
        if not line.startswith(heads):
            continue
        buf = line
        while True:
            depth = 0
            instr = False
            j = 0
            while j < len(buf):
                ch = buf[j]
                if instr:
                    if ch == "\\":
                        j += 1
                    elif ch == '"':
                        instr = False
                elif ch == '"':
                    instr = True
                elif buf.startswith("<<", j):
                    depth += 1
                    j += 1
                elif buf.startswith(">>", j):
                    depth -= 1
                    j += 1
                j += 1
            if depth <= 0 or k >= len(lines):
                break
            buf += "\n" + lines[k]
            k += 1
        res.append(tlc.parse_tla_value(buf))
    return res


def judge(wd, k, cases):
    w = os.path.join(wd, "j%d" % k)
    os.makedirs(w)
    path = os.path.join(w, "cases.json")
    with open(path, "w") as f:
        json.dump({"cases": cases}, f)
    return tlc.run_tlc("MC_C15", JCFG, env={"CASE_FILE": path}, wd=w, xmx="2g", timeout=3000)


def generate(chk, P, wd):
    out = os.path.join(wd, "gen.json")
    r = tlc.run_tlc("MC_C15", "CONSTANTS DigitPalette = {%s}\nCcLen = %d\nINIT GInit\nNEXT GNext\nCHECK_DEADLOCK FALSE\n"
                    % (", ".join(map(str, P["palette"])), P["cc_len"]), env={"OUT_FILE": out}, xmx="4g")
    chk.add_tlc(r)
    with open(out) as f:
        gen = json.load(f)
    rnd = random.Random(chk.seed)
    cases = []
    l1 = []
    for fam in ("level0", "unions", "seq1", "seq2", "seq3", "seq4", "seq5"):
        chk.cov["gen_" + fam] = len(gen[fam])
        l1 += [("doc-" + fam, t) for t in gen[fam]]
    chk.cov["documented_grammar_depth1_total"] = len(l1)
    if P["l1_sample"] and len(l1) > P["l1_sample"]:
        keep = [x for x in l1 if x[0] == "doc-level0"]
        rest = [x for x in l1 if x[0] != "doc-level0"]
        l1 = keep + rnd.sample(rest, P["l1_sample"] - len(keep))
    for t in DOCTESTS:
        cases.append({"kind": "iv", "family": "pinned", "term": t})
    for fam, t in l1:
        cases.append({"kind": "iv", "family": fam, "term": t})
    for k in range(P["deep"]):
        cases.append({"kind": "iv", "family": "doc-deep", "term": gen_regex(rnd, P["palette"], rnd.choice([2, 2, 3]), True, False)})
    for k in range(P["deep_inner"]):
        cases.append({"kind": "iv", "family": "doc-deep-anysign", "term": gen_regex(rnd, P["palette"], rnd.choice([2, 3]), True, True)})
    if P["extended"]:
        for t in EXTENDED:
            cases.append({"kind": "iv", "family": "extended", "term": t})
    chk.cov["gen_cclists"] = len(gen["cclists"])
    for xs in gen["cclists"]:
        cases.append({"kind": "cc", "family": "cc-enumerated", "xs": xs})
    for k in range(P["cc_random"]):
        cases.append({"kind": "cc", "family": "cc-random", "xs": gen_cc(rnd)})
    for k, c in enumerate(cases):
        c["id"] = k + 1
        if c["kind"] == "iv":
            c.update(jmax=P["jmax"], ls=P["ls"], lemma=(k % P["lemma_every"] == 0))
        else:
            sigma = set()
            for x in c["xs"]:
                chars_of(x, sigma)
            sigma = sorted(sigma) or [97]
            n = len(sigma)
            c.update(sigma=sigma, L=P["Lcc"] if n <= 2 else max(2, P["Lcc"] - (1 if n == 3 else 2 if n <= 5 else 3)))
    return cases


def run(chk, cases_in=None):
    P = dict(TIERS[chk.tier])
    if SCALE != 1:
        for key in ("l1_sample", "deep", "deep_inner", "cc_random"):
            P[key] = max(1, int((P[key] or 3200) * SCALE))
    wd = tlc.workdir("c15")
    try:
        cases = generate(chk, P, wd) if cases_in is None else cases_in
        results = pmap("c15", [{"cases": c} for c in chunks(cases, NPROC * 4)], timeout=900)
        obs = []
        for res in results:
            if "cases" not in res:
                raise RuntimeError("C15 driver failed: %r" % (res,))
            obs.extend(res["cases"])
        byid = {c["id"]: c for c in obs}
        for c in obs:
            chk.note("family_" + c["family"])
            chk.note("result_%s_%s" % (c["kind"], c["res"]))
        tojudge = [c for c in obs if c["res"] != "skip"]
        skipped = [c for c in obs if c["res"] == "skip"]
        if len(skipped) > len(obs) // 50:
            raise RuntimeError("C15: %d cases could not be built, e.g. %r" % (len(skipped), skipped[0]))
        chk.cov["unjudged"] += len(skipped)
        # interleave so that expensive families are spread over the JVMs
        shards = [[] for _ in range(NPROC)]
        for k, c in enumerate(tojudge):
            shards[k % NPROC].append(c)
        rs = tmap(lambda kc: judge(wd, kc[0], kc[1]), [(k, s) for k, s in enumerate(shards) if s])
        done = 0
        judged = 0
        model_bad = []
        diagnostics = {}
        for r in rs:
            chk.add_tlc(r)
            for _, n in tuples_ml(r.out, "DONE"):
                done += n
            for _, cid, kind, res, n1, n2, n3, flag, nev in tuples_ml(r.out, "CASE"):
                c = byid[cid]
                judged += 1
                chk.cov["evaluations"] += nev
                if kind == "iv":
                    if res == "some":
                        chk.note("iv_exactness_judged" if flag else "iv_exactness_bound_not_reached")
                        chk.cov["max_padding_tried"] = max(chk.cov.get("max_padding_tried", 0), n3)
                        if 0 < n1:
                            chk.nontrivial(smt.to_smt2(c["term"]))
                    elif res == "oor":
                        chk.cov["unjudged"] += 1
                    elif res == "exc" and c["family"] != "extended":
                        chk.mismatch(signature(c, "exception"), record(c, "exception", None, 0, ""))
                    elif res == "exc":
                        diagnostics.setdefault("extended exception " + c["exc"].split(":")[0], []).append(smt.to_smt2(c["term"]))
                else:
                    if res == "ok":
                        if c.get("changed") and 0 < n1 < nev:
                            chk.nontrivial(json.dumps(c["xs"]))
                        if c.get("changed"):
                            chk.note("cc_changed")
                    elif res in ("exc", "empty"):
                        chk.mismatch(signature(c, "exception" if res == "exc" else "empty"), record(c, res, None, 0, ""))
                    else:
                        chk.cov["unjudged"] += 1
            for _, cid, clause, wit, count, extra in tuples_ml(r.out, "MISMATCH"):
                c = byid[cid]
                if c["family"] == "extended":
                    diagnostics.setdefault("extended " + clause, []).append(
                        {"regex": smt.to_smt2(c["term"]), "result": c.get("raw"), "witness": wit})
                    continue
                chk.mismatch(signature(c, "soundness" if clause == "soundness-string" else clause), record(c, clause, wit, count, extra))
            for _, cid, clause, wit, count, extra in tuples_ml(r.out, "UNJUDGED"):
                chk.cov["unjudged"] += 1
                chk.note("unjudged_" + clause)
            for t in tuples_ml(r.out, "MODEL"):
                model_bad.append((t, smt.to_smt2(byid[t[1]]["term"])))
        if done != len(tojudge) or judged != len(tojudge):
            raise RuntimeError("TLC judged %d/%d of %d cases" % (judged, done, len(tojudge)))
        if model_bad:
            for m in model_bad[:10]:
                print("PADDING-LEMMA-FAILS", m)
            raise RuntimeError("spec/RegexInt.tla: the padding bound is wrong on %d cases" % len(model_bad))
        chk.cov["traces_validated_against_impl"] = judged
        chk.cov["cases"] = len(obs)
        chk.cov["diagnostics_outside_documented_shape"] = {k: v[:6] for k, v in diagnostics.items()}
        some = [c for c in obs if c["kind"] == "iv" and c["res"] == "some"]
        for c in some[:: max(1, len(some) // 4)][:4]:
            chk.sample({"regex": smt.to_smt2(c["term"]), "family": c["family"], "intervals": c["raw"]})
        cc = [c for c in obs if c["kind"] == "cc" and c.get("changed")]
        for c in cc[:: max(1, len(cc) // 2)][:2]:
            chk.sample({"concat": [smt.to_smt2(x) for x in c["xs"]], "compressed": [smt.to_smt2(y) for y in c["ys"]],
                        "alphabet": smt.to_smt2(S("".join(map(chr, c["sigma"])))), "L": c["L"]})
    finally:
        shutil.rmtree(wd, ignore_errors=True)


def record(c, clause, wit, count, extra):
    """complete replay record of one mismatch"""
    rec = {"kind": c["kind"], "family": c["family"], "clause": clause, "exc": c.get("exc", ""), "input": {}}
    if c["kind"] == "iv":
        rec.update(regex=smt.to_smt2(c["term"]), term=c["term"], result=c.get("raw"), intervals=c.get("iv"),
                   witness_value=wit if not isinstance(wit, list) else None,
                   witness_string="".join(map(chr, wit)) if isinstance(wit, list) else None,
                   probe_values_affected=count, signs_affected=extra,
                   jmax=c["jmax"], ls=c["ls"], lemma=c["lemma"])
    else:
        rec.update(concat=[smt.to_smt2(x) for x in c["xs"]], compressed=[smt.to_smt2(y) for y in c.get("ys", [])],
                   xs=c["xs"], ys=c.get("ys", []), sigma=c["sigma"], L=c["L"],
                   witness_string="".join(map(chr, wit)) if isinstance(wit, list) else None,
                   strings_affected=count, direction=extra)
    return rec


def main(tier):
    chk = Check("C15", tier)
    P = TIERS[tier]
    chk.cov["rule"] = (
        "intervals: TLC enumerates the grammar in the docstring of numeric_intervals_from_regex to nesting depth 1 over the digit "
        "palette %s (%s), plus %d seeded depth-2/3 expressions with signs only in front, %d with signs wherever the grammar allows "
        "them, the %d docstring/pinned examples and %d expressions outside the documented shape (diagnostics only). Per result "
        "Some(I): all strings over {+,-,0..9} up to length %d and all numerals (sign? 0^j digits, j up to PaddingBound(r) <= %d) of "
        "the probe values -21..21, +-99..101, +-120, +-999, +-1000 and the neighbours of every finite bound. compression: TLC "
        "enumerates all lists up to length %d over {a, a*, a+, b, b*}, plus %d random lists; all strings over the letters of the "
        "list up to length %d. evaluations = strings/values decided; distinct_nontrivial = distinct regexes with Some(I) and a "
        "matched probe value + distinct lists that compression changed and whose language is neither empty nor full"
        % ("".join(map(chr, P["palette"])), P["l1_sample"] or "all", P["deep"], P["deep_inner"], len(DOCTESTS), len(EXTENDED),
           P["ls"], P["jmax"], P["cc_len"], P["cc_random"], P["Lcc"]))
    chk.assumptions = [
        "regular-expression membership is SmtLib!Matches (validated against Z3 by C05)",
        "exactness is judged only when the tried padding reaches Positions(r)+1 (pumping argument in spec/RegexInt.tla, re-checked "
        "by TLC with 3 more zeros on every %dth case); otherwise a missing witness is unjudged" % P["lemma_every"],
        "soundness is bounded: strings up to the length bound and numerals of the probe values",
        "Nothing is always accepted; bounds that do not fit 32 bits are unjudged",
        "a numeral is sign? 0* digits; '-0' denotes 0"]
    run(chk)
    return chk.finish(exhaustive=False)


def replay(path):
    with open(path) as f:
        rec = json.load(f)
    chk = Check("C15", "quick")
    cases = []
    for k, c in enumerate(rec["cases"]):
        if c["kind"] == "iv":
            cases.append({"id": k + 1, "kind": "iv", "family": c["family"], "term": c["term"], "jmax": c["jmax"], "ls": c["ls"],
                          "lemma": c["lemma"]})
        else:
            cases.append({"id": k + 1, "kind": "cc", "family": c["family"], "xs": c["xs"], "sigma": c["sigma"], "L": c["L"]})
    run(chk, cases_in=cases)
    return chk.finish()
