"""C11 -- BNF grammars survive printing and re-parsing with the same language; without '<' in a
terminal the grammar comes back identical.

TLC (spec/MC_C11.tla, Gen) enumerates grammars whose terminals are built from a palette of
ordinary, quoting and control characters; the driver runs parse_bnf(unparse_grammar(G)) and
projects the result; TLC compares the projections and the languages of every nonterminal of G
(Grammars!LangUpTo on code-point sequences) and judges exceptions."""
import json
import os
import random
import shutil

from harness import tlc
from harness import project as pj
from harness.common import Check, chunks, pmap, tmap, NPROC

TIERS = {"quick": dict(max_items=2, nrandom=1500, lookalike=20, Lcap=7, Lpairs=6),
         "thorough": dict(max_items=3, nrandom=15000, lookalike=60, Lcap=9, Lpairs=8)}
JCFG = "CONSTANTS MaxItems = 1\nNRandom = 1\nINIT JInit\nNEXT JNext\nINVARIANT Judged\nINVARIANT Count\nCHECK_DEADLOCK FALSE\n"

# deterministic corpus, exercised in every run: characters outside the palette that the BNF
# syntax or the escape table treats specially, and the <langle> rewriting
PINNED = [
    ("pinned-placeholder-text", {"<start>": ["$$BESC$$"]}),
    ("pinned-bnf-metacharacters", {"<start>": ["a#b", "x | y", "::=", ";", "<A>;"], "<A>": ["|", "# c\n", "'"]}),
    ("pinned-beyond-latin1", {"<start>": ["Ω", "€", "\U0001F600", "Ā", "\x80", "\xff"]}),
    ("pinned-more-controls", {"<start>": ["\x08", "\x1b", "\x01a", "\x1f", "\x85"]}),
    ("pinned-literal-escape-texts", {"<start>": ["\\x41", "\\b", "\\r", "\\\\n", "\\\"", "\\x0b", "\\", "\\\\", "\\x5c", "\\x3c"]}),
    ("pinned-literal-hex-escape-texts", {"<start>": ["\\x61", "\\x5d", "\\x7e", "\\xff", "\\x5cx61", "a\\x62c", "\\\\x61", "\\x6"], "<A>": ["\\x41\\x61"]}),
    ("pinned-langle-alternatives", {"<start>": ["<elem>"], "<elem>": ["<langle>b>", "x<langle>"], "<langle>": ["<", "&lt;"]}),
    ("pinned-langle-defined", {"<start>": ["<langle>a<b"], "<langle>": ["<"]}),
    ("pinned-langle-chain", {"<start>": ["<langle><langle_0><<langle_1>"], "<langle>": ["x"], "<langle_0>": ["y"], "<langle_1>": ["<"]}),
    ("pinned-lt-everywhere", {"<start>": ["<<A><", "<"], "<A>": ["><", "< >", "<a b>"]}),
    ("pinned-unreachable-lt", {"<start>": ["a"], "<B>": ["x<y"]}),
]
PLAIN = set(map(ord, "ab >"))


def terminals(jg):
    return [s["c"] for alts in jg.values() for alt in alts for s in alt if not s["nt"]]


def pick_L(jg, cap, budget=600):
    """length bound for the language comparison: the largest L <= cap for which the number of
    terminal-token sequences of total length <= L stays below `budget` (Grammars!AltLang builds
    products of two such sets, TLC refuses sets beyond 10^6 elements).  Terminals are split at
    '<' because the re-parsed grammar spells '<' through a nonterminal of its own."""
    toks = set()
    for t in terminals(jg):
        part = []
        for ch in t:
            if ch == 60:
                toks.add((60,))
                if part:
                    toks.add(tuple(part))
                part = []
            else:
                part.append(ch)
        if part:
            toks.add(tuple(part))
    lens = [len(t) for t in toks] or [1]
    f = [1]
    total = 1
    L = 0
    for n in range(1, cap + 1):
        f.append(sum(f[n - k] for k in lens if k <= n))
        total += f[n]
        if total > budget:
            break
        L = n
    return max(2, L)


def tuples_ml(out, tag):
    """PrintT(<<"tag", ...>>) values in TLC's output.  TLC prints a long tuple over several
    lines (starting with '<< "tag",'); TlcResult.tuples only sees one-line tuples."""
    res = []
    lines = out.splitlines()
    k = 0
    heads = ('<<"%s"' % tag, '<< "%s"' % tag)
    while k < len(lines):
        line = lines[k]
        k += 1
        if not line.startswith(heads):
            continue
        buf = line
        while True:
            depth = 0
            instr = False
            j = 0
            while j < len(buf):
                ch = buf[j]
                if instr:
                    if ch == "\\":
                        j += 1
                    elif ch == '"':
                        instr = False
                elif ch == '"':
                    instr = True
                elif buf.startswith("<<", j):
                    depth += 1
                    j += 1
                elif buf.startswith(">>", j):
                    depth -= 1
                    j += 1
                j += 1
            if depth <= 0 or k >= len(lines):
                break
            buf += "\n" + lines[k]
            k += 1
        res.append(tlc.parse_tla_value(buf))
    return res


def judge(wd, k, cases):
    w = os.path.join(wd, "j%d" % k)
    os.makedirs(w)
    path = os.path.join(w, "cases.json")
    with open(path, "w") as f:
        json.dump({"cases": cases}, f)
    return tlc.run_tlc("MC_C11", JCFG, env={"CASE_FILE": path}, wd=w, xmx="3g", timeout=3000)


def generate(chk, P, wd):
    out = os.path.join(wd, "gen.json")
    r = tlc.run_tlc("MC_C11", "CONSTANTS MaxItems = %d\nNRandom = %d\nINIT GInit\nNEXT GNext\nCHECK_DEADLOCK FALSE\n"
                    % (P["max_items"], P["nrandom"]), env={"OUT_FILE": out}, xmx="6g", seed=chk.seed + 1)
    chk.add_tlc(r)
    with open(out) as f:
        gen = json.load(f)
    rnd = random.Random(chk.seed)
    cases = []
    for name, g in PINNED:
        cases.append({"family": name, "g": pj.grammar_to_json(g), "L": 8})
    for g in gen["single"]:
        cases.append({"family": "single-terminal", "g": g, "L": max(1, len(terminals(g)[0]))})
    look = gen["lookalike"]
    chk.cov["lookalike_grammars_generated"] = len(look)
    if len(look) > P["lookalike"]:
        look = rnd.sample(look, P["lookalike"])
    for g in look:
        cases.append({"family": "nonterminal-lookalike", "g": g, "L": 4})
    for g in gen["pairs"]:
        cases.append({"family": "pairs-recursive", "g": g, "L": pick_L(g, P["Lpairs"])})
    for x in gen["random"]:
        cases.append({"family": "random" if x["reach"] else "random-unreachable", "g": x["g"], "L": pick_L(x["g"], P["Lcap"])})
    # histories: the same grammar was printed and parsed before in the same interpreter and the earlier result was
    # changed in place (every 4th case) or handed to ISLaSolver(text, start_symbol=...) (a few)
    again = []
    for k, c in enumerate(cases):
        if c["family"] in ("random", "pairs-recursive", "single-terminal") or c["family"].startswith("pinned"):
            if k % 4 == 0:
                again.append(dict(c, family=c["family"] + "+mutated-before", history="mutate"))
            elif k % 41 == 1 and len(c["g"]) > 1:
                again.append(dict(c, family=c["family"] + "+solver-before", history="solver"))
    cases += again
    for k, c in enumerate(cases):
        c["idx"] = k + 1
    return cases


def run(chk, cases_in=None):
    P = TIERS[chk.tier]
    wd = tlc.workdir("c11")
    try:
        cases = generate(chk, P, wd) if cases_in is None else cases_in
        results = pmap("c11", [{"cases": c} for c in chunks(cases, NPROC * 4)], timeout=900)
        obs = []
        for res in results:
            if "cases" not in res:
                raise RuntimeError("C11 driver failed: %r" % (res,))
            obs.extend(res["cases"])
        byidx = {c["idx"]: c for c in obs}
        for c in obs:
            chk.note("family_" + c["family"])
            if not c["proj_ok"] and c["family"] != "nonterminal-lookalike":
                raise RuntimeError("C11: case %d is not the projection of an implementation grammar: %r" % (c["idx"], c["g"]))
        # languages of recursive grammars cost most: spread them over the JVMs
        order = sorted(obs, key=lambda c: (-c["L"] * len(c["g"]), c["idx"]))
        shards = [[] for _ in range(NPROC)]
        for k, c in enumerate(order):
            shards[k % NPROC].append(c)
        rs = tmap(lambda kc: judge(wd, kc[0], kc[1]), [(k, s) for k, s in enumerate(shards) if s])
        done = judged = 0
        for r in rs:
            chk.add_tlc(r)
            for _, n in tuples_ml(r.out, "DONE"):
                done += n
            for _, idx, verdict, nt, wit, nstr, has_lt, identical, reach in tuples_ml(r.out, "CASE"):
                c = byidx[idx]
                if verdict.startswith("UNJUDGED"):
                    chk.cov["unjudged"] += 1
                    chk.note("lookalike_observed_" + ("exception" if c["res"] == "exc" else "result"))
                    continue
                judged += 1
                chk.cov["evaluations"] += max(1, nstr) + (0 if has_lt else 1)
                chk.note("with_lt" if has_lt else "without_lt")
                if identical:
                    chk.note("identical_results")
                if nstr:
                    chk.note("language_comparisons")
                    chk.note("strings_compared", nstr)
                special = any(ch not in PLAIN for t in terminals(c["g"]) for ch in t)
                if special and (not has_lt or nstr > 0):
                    chk.nontrivial(idx)
                if verdict != "OK":
                    sig = {"clause": verdict, "exc": c["exc"].split(":")[0], "stage": c["stage"], "has_lt": has_lt,
                           "all_reachable": reach}
                    chk.mismatch(sig, {"family": c["family"], "grammar": pj.json_to_grammar(c["g"]), "g": c["g"], "L": c["L"], "history": c.get("history", ""),
                                       "bnf": c["bnf"], "exception": c["exc"], "stage": c["stage"],
                                       "result": pj.json_to_grammar(c["g2"]) if c["res"] == "ok" else None,
                                       "nonterminal": nt, "witness": pj.text(wit), "witness_codepoints": wit})
        if done != len(obs) or judged + chk.cov["unjudged"] != len(obs):
            raise RuntimeError("TLC judged %d (+%d unjudged) / done %d of %d grammars" % (judged, chk.cov["unjudged"], done, len(obs)))
        chk.cov["traces_validated_against_impl"] = judged
        chk.cov["grammars"] = len(obs)
        picks = [c for c in obs if c["family"] in ("random", "pairs-recursive")]
        for c in picks[:: max(1, len(picks) // 4)][:4]:
            chk.sample({"family": c["family"], "grammar": pj.json_to_grammar(c["g"]), "bnf": c["bnf"],
                        "reparsed": pj.json_to_grammar(c["g2"]), "L": c["L"]})
    finally:
        shutil.rmtree(wd, ignore_errors=True)


def main(tier):
    chk = Check("C11", tier)
    P = TIERS[tier]
    chk.cov["rule"] = (
        "palette: a b space \" \\ < > TAB LF CR VT FF NUL DEL a-umlaut and the two-character texts \\n \\t. TLC enumerates "
        "(1) <start> ::= t for every text t of up to %d palette items (exhaustive), (2) a recursive two-nonterminal grammar with an "
        "empty alternative for every pair of palette items, (3) %d random grammars with 1-3 nonterminals (names incl. <langle>, "
        "<langle_0>), 1-3 alternatives of 0-3 symbols with terminals of 1-3 items (those with a nonterminal unreachable from "
        "<start> form the family random-unreachable); plus %d pinned grammars (BNF metacharacters, characters beyond Latin-1, "
        "literal escape texts, <langle> clashes). Terminals that look like nonterminals (<...>) are a separate family that is never "
        "judged. Judged per grammar: identity of the projections when no terminal contains '<'; LangUpTo(G')[N] = LangUpTo(G)[N] "
        "for every nonterminal N of G up to length L (4..%d, chosen from the terminal lengths); exceptions. distinct_nontrivial = "
        "judged grammars with a terminal character outside {a, b, space, >} (and, with '<', a non-empty language within the bound)"
        % (P["max_items"], P["nrandom"], len(PINNED), P["Lcap"]))
    chk.assumptions = [
        "grammars are compared through harness/project.py:grammar_to_json (terminals as code-point sequences)",
        "language equality is checked for strings up to the length bound only (Grammars!LangUpTo, Kleene iteration)",
        "a terminal containing <...> (no '<', '>' or space inside) is a nonterminal in the implementation's grammar representation: "
        "the property promises nothing for it"]
    run(chk)
    return chk.finish(exhaustive=False)


def replay(path):
    with open(path) as f:
        rec = json.load(f)
    chk = Check("C11", "quick")
    cases = [{"idx": k + 1, "family": c["family"], "g": c["g"], "L": c["L"], "history": c.get("history", "")} for k, c in enumerate(rec["cases"])]
    run(chk, cases_in=cases)
    return chk.finish()
