"""Thin driver around TLC.  No verdict logic lives here: it starts the model checker,
hands it files through environment variables (read inside the specification with
IOEnv), and returns what TLC printed: PrintT tuples, statistics and errors."""
import os
import re
import shutil
import subprocess
import tempfile
import time

VERIF = os.path.dirname(os.path.dirname(os.path.abspath(__file__)))
SPEC_DIR = os.path.join(VERIF, "spec")
WORK = os.path.join(VERIF, ".work")
JAR = "/opt/veriftools/tla/tla2tools.jar"
CM = "/opt/veriftools/tla/CommunityModules-deps.jar"


class TlcError(Exception):
    """TLC itself failed (parse error, evaluation error, crash): machinery failure."""


class TlcResult:
    def __init__(self, rc, out, wall):
        self.rc = rc
        self.out = out
        self.wall = wall
        self.generated = 0
        self.distinct = 0
        self.depth = 0
        m = None
        for m in re.finditer(r"(\d+) states generated, (\d+) distinct states found", out):
            pass
        if m:
            self.generated = int(m.group(1))
            self.distinct = int(m.group(2))
        m = re.search(r"The depth of the complete state graph search is (\d+)", out)
        if m:
            self.depth = int(m.group(1))
        self.violated = re.findall(r"Invariant (\S+) is violated", out) + re.findall(
            r"Action property (\S+) is violated", out) + (
            ["<temporal>"] if "Temporal properties were violated" in out else [])
        self.errors = [l for l in out.splitlines() if l.startswith("Error:")]

    def tuples(self, tag):
        """PrintT(<<"tag", ...>>) values, parsed into python lists.  TLC pretty-prints long
        values over several lines (then with a blank after <<): lines are joined until the
        brackets balance."""
        res = []
        lines = self.out.splitlines()
        k = 0
        starts = ('<<"%s"' % tag, '<< "%s"' % tag)
        while k < len(lines):
            line = lines[k]
            if line.startswith(starts):
                buf = line
                while not _balanced(buf) and k + 1 < len(lines):
                    k += 1
                    buf += "\n" + lines[k]
                res.append(parse_tla_value(buf))
            k += 1
        return res

    def coverage(self):
        """-coverage output: per action 'distinct:total' counts."""
        cov = {}
        for m in re.finditer(r"<(\w+) line \d+, col \d+ to line \d+, col \d+ of module (\w+)>: (\d+):(\d+)", self.out):
            cov[m.group(2) + "!" + m.group(1)] = (int(m.group(3)), int(m.group(4)))
        return cov


def _balanced(s):
    depth = 0
    instr = False
    k = 0
    while k < len(s):
        c = s[k]
        if instr:
            if c == "\\":
                k += 1
            elif c == '"':
                instr = False
        elif c == '"':
            instr = True
        elif s.startswith("<<", k):
            depth += 1
            k += 1
        elif s.startswith(">>", k):
            depth -= 1
            k += 1
        elif c in "[{(":
            depth += 1
        elif c in "]})":
            depth -= 1
        k += 1
    return depth <= 0 and not instr


def parse_tla_value(s):
    """Parse the printed form of a TLA+ value made of tuples, strings, ints, booleans, sets
    and records into python lists / str / int / bool / dict."""
    pos = 0
    n = len(s)

    def ws():
        nonlocal pos
        while pos < n and s[pos] in " \n\t":
            pos += 1

    def val():
        nonlocal pos
        ws()
        if s.startswith("<<", pos):
            pos += 2
            items = []
            ws()
            if s.startswith(">>", pos):
                pos += 2
                return items
            while True:
                items.append(val())
                ws()
                if s.startswith(">>", pos):
                    pos += 2
                    return items
                assert s[pos] == ",", (s, pos)
                pos += 1
        if s[pos] == "{":
            pos += 1
            items = []
            ws()
            if s[pos] == "}":
                pos += 1
                return items
            while True:
                items.append(val())
                ws()
                if s[pos] == "}":
                    pos += 1
                    return items
                assert s[pos] == ",", (s, pos)
                pos += 1
        if s[pos] == "[":
            pos += 1
            rec = {}
            while True:
                ws()
                m = re.compile(r"([A-Za-z_][A-Za-z0-9_]*)\s*\|->").match(s, pos)
                assert m, (s, pos)
                pos = m.end()
                rec[m.group(1)] = val()
                ws()
                if s[pos] == "]":
                    pos += 1
                    return rec
                assert s[pos] == ",", (s, pos)
                pos += 1
        if s[pos] == '"':
            pos += 1
            buf = []
            while s[pos] != '"':
                if s[pos] == "\\":
                    pos += 1
                    buf.append({"n": "\n", "t": "\t"}.get(s[pos], s[pos]))
                else:
                    buf.append(s[pos])
                pos += 1
            pos += 1
            return "".join(buf)
        m = re.compile(r"-?\d+").match(s, pos)
        if m:
            pos = m.end()
            return int(m.group(0))
        for lit, v in (("TRUE", True), ("FALSE", False)):
            if s.startswith(lit, pos):
                pos += len(lit)
                return v
        raise ValueError("cannot parse TLA+ value at %d: %r" % (pos, s[pos:pos + 40]))

    return val()


def workdir(tag):
    os.makedirs(WORK, exist_ok=True)
    return tempfile.mkdtemp(prefix=tag + "-", dir=WORK)


def run_tlc(module, cfg, env=None, workers=1, timeout=900, dfs=False, simulate=None,
            depth=None, coverage=False, xmx="3g", seed=None, wd=None, check=True, extra=()):
    """Run TLC on spec/<module>.tla with configuration text `cfg`.
    `env` entries become environment variables visible to the spec through IOEnv."""
    own = wd is None
    wd = wd or workdir(module)
    cfg_path = os.path.join(wd, module + ".cfg")
    with open(cfg_path, "w") as f:
        f.write(cfg)
    jtmp = os.path.join(wd, "jtmp")          # TLC leaves an empty tlc-* directory per run in java.io.tmpdir
    os.makedirs(jtmp, exist_ok=True)
    jopts = ["-XX:+UseParallelGC", "-Xmx" + xmx, "-Xss64m", "-DTLA-Library=" + SPEC_DIR, "-Djava.io.tmpdir=" + jtmp]
    if dfs:
        jopts.append("-Dtlc2.tool.queue.IStateQueue=StateDeque")
    cmd = ["java"] + jopts + ["-cp", JAR + ":" + CM, "tlc2.TLC", "-workers", str(workers),
                              "-metadir", os.path.join(wd, "meta"), "-noGenerateSpecTE",
                              "-config", cfg_path]
    if simulate:
        cmd += ["-simulate", simulate]
    if depth is not None:
        cmd += ["-depth", str(depth)]
    if coverage:
        cmd += ["-coverage", "1"]
    if seed is not None:
        cmd += ["-seed", str(seed)]
    cmd += list(extra)
    cmd.append(os.path.join(SPEC_DIR, module + ".tla"))
    e = dict(os.environ)
    e.pop("JAVA_TOOL_OPTIONS", None)
    for k, v in (env or {}).items():
        e[k] = str(v)
    t0 = time.time()
    try:
        p = subprocess.run(cmd, cwd=wd, env=e, stdout=subprocess.PIPE, stderr=subprocess.STDOUT,
                           timeout=timeout, text=True, errors="replace")
        out, rc = p.stdout, p.returncode
    except subprocess.TimeoutExpired as ex:
        out = (ex.stdout or b"")
        if isinstance(out, bytes):
            out = out.decode("utf-8", "replace")
        out += "\nError: TLC timed out after %ss" % timeout
        rc = -9
    res = TlcResult(rc, out, time.time() - t0)
    if own:
        shutil.rmtree(wd, ignore_errors=True)
    if check:
        # rc 0 = ok, 12 = safety violation (reported through res.violated); everything else is
        # a failure of the machinery (parse error, evaluation error, crash, timeout)
        if rc not in (0, 12) or (rc == 0 and res.errors):
            first = out.find("Error:")
            raise TlcError("TLC failed on %s (rc=%s):\n%s\n...\n%s" % (module, rc, out[max(0, first - 200):first + 1500] if first >= 0 else "", out[-2500:]))
    return res


def sany(module):
    p = subprocess.run(["java", "-cp", JAR + ":" + CM, "-DTLA-Library=" + SPEC_DIR, "tla2sany.SANY",
                        os.path.join(SPEC_DIR, module + ".tla")], cwd=SPEC_DIR,
                       stdout=subprocess.PIPE, stderr=subprocess.STDOUT, text=True)
    ok = p.returncode == 0 and "*** Errors" not in p.stdout and "Fatal" not in p.stdout
    return ok, p.stdout
