"""Worker process: reads one JSON task per line on stdin, runs
harness.drivers.<module>.run(task) against the implementation and prints
'@@RESULT <json>' per task.  Everything else the implementation prints is ignored."""
import importlib
import json
import logging
import sys
import traceback


def main():
    logging.disable(logging.CRITICAL)
    mod = importlib.import_module("harness.drivers." + sys.argv[1])
    out = sys.stdout
    sys.stdout = sys.stderr          # keep the result channel clean
    for line in sys.stdin:
        task = json.loads(line)
        try:
            res = mod.run(task)
        except BaseException as ex:  # driver failure, not an observation
            if isinstance(ex, (KeyboardInterrupt, SystemExit)):
                raise
            res = {"_driver_error": "%s: %s" % (type(ex).__name__, ex), "tb": traceback.format_exc()[-3000:]}
        out.write("@@RESULT " + json.dumps(res) + "\n")
        out.flush()
        if getattr(mod, "EXIT_AFTER", False):    # the driver asks for a fresh process
            return


if __name__ == "__main__":
    main()
