"""ISLa formula ASTs in the wire format of spec/IslaSemantics.tla, an independent printer to
core ISLa concrete syntax, and the formula catalogue / schema generator used by C03, C06, C09.
Nothing here computes a verdict."""
import itertools
import random

from harness import smt
from harness.smt import A, I, S, V
from harness import project as pj


# ------------------------------------------------------------------ constructors
def Q(op, ty, v, body, inn="start", mexpr=None):
    return {"op": op, "v": v, "ty": ty, "in": inn, "mexpr": mexpr or [], "body": body}


def FA(ty, v, body, inn="start", mexpr=None):
    return Q("forall", ty, v, body, inn, mexpr)


def EX(ty, v, body, inn="start", mexpr=None):
    return Q("exists", ty, v, body, inn, mexpr)


def FAI(v, body, nb=0):
    return {"op": "forallint", "v": v, "nb": nb, "body": body}


def EXI(v, body, nb=0):
    return {"op": "existsint", "v": v, "nb": nb, "body": body}


def AND(*a):
    return {"op": "and", "args": list(a)}


def OR(*a):
    return {"op": "or", "args": list(a)}


def NOT(a):
    return {"op": "not", "arg": a}


TRUE = {"op": "true"}
FALSE = {"op": "false"}


def PRED(name, *args):
    """args: python str (variable name), ("s", text) string literal, int"""
    out = []
    for a in args:
        if isinstance(a, int):
            out.append({"k": "int", "i": a})
        elif isinstance(a, tuple):
            out.append({"k": "str", "s": a[1]})
        else:
            out.append({"k": "var", "v": a})
    return {"op": "pred", "name": name, "args": out}


def COUNT(inn, needle, num):
    n = {"k": "int", "i": num} if isinstance(num, int) else {"k": "var", "v": num}
    return {"op": "count", "args": [{"k": "var", "v": inn}, {"k": "str", "s": needle}, n]}


def SMT(term):
    return {"op": "smt", "term": term}


def MCH(s):
    return [{"k": "ch", "c": ord(c)} for c in s]


def MNT(n, v=""):
    return [{"k": "nt", "n": n, "v": v}]


def MOPT(*atoms):
    return [{"k": "opt", "atoms": [a for grp in atoms for a in grp]}]


def M(*parts):
    return [a for p in parts for a in p]


# ------------------------------------------------------------------ printer (core syntax)
def isla_str(cps):
    out = []
    for c in cps:
        if c == 34:
            out.append('\\"')
        elif c == 92 or c < 32 or c > 126:
            out.append("\\u{%x}" % c)
        else:
            out.append(chr(c))
    return '"' + "".join(out) + '"'


def term_text(t):
    k = t["k"]
    if k == "var":
        return t["v"]
    if k == "str":
        return isla_str(t["s"])
    if k == "int":
        return str(t["i"]) if t["i"] >= 0 else "(- %d)" % -t["i"]
    if k == "bool":
        return "true" if t["b"] else "false"
    f = t["f"]
    args = " ".join(term_text(a) for a in t["args"])
    if f == "re.loop":
        lo, hi = t["p"]
        return "((_ re.loop %d %d) %s)" % (lo, hi, args) if hi >= 0 else "((_ re.loop %d) %s)" % (lo, args)
    if not t["args"]:
        return f
    return "(%s %s)" % (f, args)


def mexpr_text(atoms):
    out = []
    for a in atoms:
        if a["k"] == "ch":
            c = chr(a["c"])
            out.append('\\"' if c == '"' else c)
        elif a["k"] == "nt":
            out.append("{%s %s}" % (a["n"], a["v"]) if a["v"] else a["n"])
        else:
            out.append("[" + mexpr_text(a["atoms"]) + "]")
    return "".join(out)


def text(f):
    op = f["op"]
    if op in ("forall", "exists"):
        m = '="%s"' % mexpr_text(f["mexpr"]) if f["mexpr"] else ""
        return "%s %s %s%s in %s: (%s)" % (op, f["ty"], f["v"], m, f["in"], text(f["body"]))
    if op in ("forallint", "existsint"):
        return "%s int %s: (%s)" % (op[:-3], f["v"], text(f["body"]))
    if op in ("and", "or"):
        args = f["args"]
        if len(args) == 1:
            return text(args[0])
        return "(" + text(args[0]) + " %s " % op + text({"op": op, "args": args[1:]}) + ")"
    if op == "not":
        return "not (%s)" % text(f["arg"])
    if op == "true":
        return "true"
    if op == "false":
        return "false"
    if op in ("pred", "count"):
        name = f["name"] if op == "pred" else "count"
        args = []
        for a in f["args"]:
            if a["k"] == "var":
                args.append(a["v"])
            elif a["k"] == "int":
                args.append('"%d"' % a["i"])
            else:
                args.append('"%s"' % a["s"])
        return "%s(%s)" % (name, ", ".join(args))
    if op == "smt":
        return term_text(f["term"])
    raise ValueError(op)


def max_int(f):
    """largest integer literal in the formula (numeric quantifier bound, see NumBound)"""
    best = 0

    def term(t):
        nonlocal best
        if t["k"] == "int":
            best = max(best, abs(t["i"]))
        elif t["k"] == "app":
            for a in t["args"]:
                term(a)

    def walk(g):
        nonlocal best
        op = g["op"]
        if op in ("forall", "exists", "forallint", "existsint"):
            walk(g["body"])
        elif op in ("and", "or"):
            for a in g["args"]:
                walk(a)
        elif op == "not":
            walk(g["arg"])
        elif op in ("pred", "count"):
            for a in g["args"]:
                if a["k"] == "int":
                    best = max(best, abs(a["i"]))
        elif op == "smt":
            term(g["term"])
    walk(f)
    return best


def set_num_bounds(f):
    nb = max_int(f)

    def walk(g):
        op = g["op"]
        if op in ("forallint", "existsint"):
            g["nb"] = nb
            walk(g["body"])
        elif op in ("forall", "exists"):
            walk(g["body"])
        elif op in ("and", "or"):
            for a in g["args"]:
                walk(a)
        elif op == "not":
            walk(g["arg"])
    walk(f)
    return f


def has_numeric(f):
    op = f["op"]
    if op in ("forallint", "existsint"):
        return True
    if op in ("forall", "exists"):
        return has_numeric(f["body"])
    if op in ("and", "or"):
        return any(has_numeric(a) for a in f["args"])
    if op == "not":
        return has_numeric(f["arg"])
    return False


# ------------------------------------------------------------------ small CFG helpers (independent of isla)
def expansions(grammar, nt, depth):
    """all strings derivable from nt with derivation height <= depth (may be many: keep depth small)"""
    if depth == 0:
        return set()
    out = set()
    for alt in grammar[nt]:
        toks = [t for t in pj.RE_NT.split(alt) if t]
        parts = [[""]]
        ok = True
        acc = {""}
        for tok in toks:
            if pj.is_nt(tok):
                sub = expansions(grammar, tok, depth - 1)
                if not sub:
                    ok = False
                    break
                acc = {a + b for a in acc for b in sub}
            else:
                acc = {a + tok for a in acc}
            if len(acc) > 400:
                acc = set(sorted(acc)[:400])
        if ok:
            out |= acc
    return out


def reachable(grammar, nt):
    seen, todo = set(), [nt]
    while todo:
        n = todo.pop()
        for alt in grammar[n]:
            for tok in pj.RE_NT.findall(alt):
                if tok not in seen:
                    seen.add(tok)
                    todo.append(tok)
    return seen


# ------------------------------------------------------------------ schema generator
STRUCT2 = ["before", "after", "inside", "direct_child", "same_position", "different_position"]


def schema(grammar, rnd, n, numeric_nts=(), with_numeric=True):
    """n formulas instantiating: quantifier prefix shape x matrix shape x atom family, types chosen
    by reachability in the grammar.  Returns list of (family, ast)."""
    nts = [k for k in grammar if k != "<start>"]
    lits = {k: sorted(expansions(grammar, k, 4), key=lambda s: (len(s), s))[:6] for k in nts}
    out = []

    def atom1(x, tx):
        choices = []
        if lits[tx]:
            lit = rnd.choice(lits[tx])
            choices.append(SMT(A("=", V(x), S(lit))))
            choices.append(SMT(A("distinct", V(x), S(lit))))
            if rnd.random() < 0.15:     # no Python fast path: every instantiation is a Z3 call (slow)
                choices.append(SMT(A(rnd.choice(["str.contains", "str.suffixof"]), V(x), S(lit[:1]))) if rnd.random() < 0.5
                               else SMT(A("str.prefixof", S(lit[:1]), V(x))))
        k = rnd.choice([0, 1, 2, 3, 6])
        choices.append(SMT(A(rnd.choice(["<", "<=", ">", ">=", "="]), A("str.len", V(x)), I(k))))
        if tx in numeric_nts:
            choices.append(SMT(A(rnd.choice(["<", ">=", "="]), A("str.to.int", V(x)), I(rnd.choice([0, 1, 2, 10])))))
        below = sorted(reachable(grammar, tx) - {tx})
        if below:
            choices.append(COUNT(x, rnd.choice(below), rnd.choice([0, 1, 2, 3])))
        return rnd.choice(choices)

    def atom2(x, tx, y, ty):
        choices = [PRED(rnd.choice(STRUCT2), x, y), PRED(rnd.choice(STRUCT2), y, x),
                   SMT(A("=", V(x), V(y))),
                   SMT(A(rnd.choice(["<", "<=", "="]), A("str.len", V(x)), A("str.len", V(y)))),
                   PRED("nth", rnd.choice([1, 2]), x, y), PRED("nth", rnd.choice([1, 2]), y, x),
                   PRED("level", ("s", rnd.choice(["EQ", "GE", "LE", "GT", "LT"])), ("s", rnd.choice(nts)), x, y)]
        # `consecutive` is documented for pairs of leaves only; quantified variables denote inner nodes, so it is not generated here
        return rnd.choice(choices)

    def matrix(vs):
        (x, tx) = vs[0]
        if len(vs) == 1:
            a, b = atom1(x, tx), atom1(x, tx)
        else:
            (y, ty) = vs[1]
            a, b = atom2(x, tx, y, ty), rnd.choice([atom1(x, tx), atom1(y, ty), atom2(x, tx, y, ty)])
        shape = rnd.randrange(10)
        return [a, NOT(a), AND(a, b), OR(a, NOT(b)), OR(NOT(a), b), AND(a, b, NOT(atom1(x, tx))),
                # absorption / complement shapes (simplifying combinators must not over-simplify them)
                OR(AND(a, b), NOT(a)), AND(OR(a, b), NOT(a)), OR(NOT(a), AND(b, a)), AND(NOT(b), OR(b, a))][shape]

    while len(out) < n:
        kind = rnd.randrange(10)
        t1 = rnd.choice(nts)
        q1 = rnd.choice(["forall", "exists"])
        if kind < 3:
            f = Q(q1, t1, "x", matrix([("x", t1)]))
            fam = "plain-1"
        elif kind < 7 or not with_numeric:
            q2 = rnd.choice(["forall", "exists"])
            nested = rnd.random() < 0.5
            below = sorted(reachable(grammar, t1)) if nested else nts
            if not below:
                continue
            t2 = rnd.choice(below)
            f = Q(q1, t1, "x", Q(q2, t2, "y", matrix([("x", t1), ("y", t2)]), inn="x" if nested else "start"))
            fam = "plain-2-nested" if nested else "plain-2"
        elif kind < 8:
            f = Q(q1, t1, "x", rnd.choice([FALSE, TRUE, SMT(A("=", I(1), I(2))), SMT(A("=", I(1), I(1)))]))
            fam = "vacuous-body"
        else:
            below = sorted(reachable(grammar, "<start>") - {"<start>"})
            needle = rnd.choice(below)
            k = rnd.choice([0, 1, 2, 3])
            cmpop = rnd.choice(["<", "<=", ">", ">=", "="])
            shape = rnd.randrange(4)
            if shape == 0:
                f = EXI("n", AND(COUNT("start", needle, "n"), SMT(A(cmpop, A("str.to.int", V("n")), I(k)))))
            elif shape == 1:
                f = FAI("n", OR(NOT(COUNT("start", needle, "n")), SMT(A(cmpop, A("str.to.int", V("n")), I(k)))))
            elif shape == 2:
                cands = [t for t in nts if needle in reachable(grammar, t) and t != needle]
                if not cands:
                    continue
                t = rnd.choice(cands)
                f = EXI("n", Q(q1, t, "x", COUNT("x", needle, "n")))
            else:
                f = Q(q1, t1, "x", EXI("n", AND(SMT(A("=", A("str.len", V("x")), A("str.to.int", V("n")))),
                                                  SMT(A(cmpop, A("str.to.int", V("n")), I(k))))))
            fam = ["numeric-exists-count", "numeric-forall-count", "numeric-exists-q-count", "numeric-exists-len"][shape]
        out.append((fam, set_num_bounds(f)))
    return out


def set_num_bounds_from(f, nb):
    """set the numeric-quantifier bound constant on a projected formula"""
    op = f["op"]
    if op in ("forallint", "existsint"):
        f["nb"] = nb
        set_num_bounds_from(f["body"], nb)
    elif op in ("forall", "exists"):
        set_num_bounds_from(f["body"], nb)
    elif op in ("and", "or"):
        for a in f["args"]:
            set_num_bounds_from(a, nb)
    elif op == "not":
        set_num_bounds_from(f["arg"], nb)
    return f


# ------------------------------------------------------------------ simplified syntax (C07/C08)
INFIX = {"=", "<", "<=", ">", ">=", "+", "-", "*", "div", "mod", "str.++", "re.++", "str.<="}


def sugar_term(t, top=True, ren=None):
    """prefix/infix notation of islaspec 'Generalized SMT-LIB syntax' (one infix level, operands in prefix form)"""
    ren = ren or {}
    k = t["k"]
    if k == "var":
        return ren.get(t["v"], t["v"])
    if k == "str":
        return isla_str(t["s"])
    if k == "int":
        return str(t["i"])          # negative literals are written -1
    if k == "bool":
        return "true" if t["b"] else "false"
    f, args = t["f"], t["args"]
    if top and f in INFIX and len(args) == 2:
        return "%s %s %s" % (sugar_term(args[0], False, ren), f, sugar_term(args[1], False, ren))
    if f in ("re.loop", "re.^", "distinct", "ite", "=>", "and", "or", "not", "xor") or not args:
        return term_text_ren(t, ren)      # not available in prefix notation: S-expression
    return "%s(%s)" % (f, ", ".join(sugar_term(a, False, ren) for a in args))


def sugar_text(f, ren=None, omit_in_start=True, infix=True):
    """concrete syntax using: omitted `in start`, prefix/infix SMT notation, variables renamed to
    nonterminals (ren: variable -> "<T>") for omitted names / free nonterminals"""
    ren = ren or {}
    op = f["op"]
    if op in ("forall", "exists"):
        m = '="%s"' % mexpr_text(f["mexpr"]) if f["mexpr"] else ""
        name = "" if f["v"] in ren else " " + f["v"]
        inn = "" if (omit_in_start and f["in"] == "start") else " in %s" % ren.get(f["in"], f["in"])
        return "%s %s%s%s%s: (%s)" % (op, f["ty"], name, m, inn, sugar_text(f["body"], ren, omit_in_start, infix))
    if op in ("forallint", "existsint"):
        return "%s int %s: (%s)" % (op[:-3], f["v"], sugar_text(f["body"], ren, omit_in_start, infix))
    if op in ("and", "or"):
        args = f["args"]
        if len(args) == 1:
            return sugar_text(args[0], ren, omit_in_start, infix)
        return "(" + sugar_text(args[0], ren, omit_in_start, infix) + " %s " % op + sugar_text({"op": op, "args": args[1:]}, ren, omit_in_start, infix) + ")"
    if op == "not":
        return "not (%s)" % sugar_text(f["arg"], ren, omit_in_start, infix)
    if op in ("implies", "iff", "xor"):
        return "((%s) %s (%s))" % (sugar_text(f["args"][0], ren, omit_in_start, infix), op, sugar_text(f["args"][1], ren, omit_in_start, infix))
    if op == "true":
        return "true"
    if op == "false":
        return "false"
    if op in ("pred", "count"):
        name = f["name"] if op == "pred" else "count"
        args = []
        for a in f["args"]:
            if a["k"] == "var":
                args.append(ren.get(a["v"], a["v"]))
            elif a["k"] == "int":
                args.append('"%d"' % a["i"])
            else:
                args.append('"%s"' % a["s"])
        return "%s(%s)" % (name, ", ".join(args))
    if op == "smt":
        return sugar_term(f["term"], True, ren) if infix else term_text_ren(f["term"], ren)
    raise ValueError(op)


def term_text_ren(t, ren):
    if t["k"] == "var":
        return ren.get(t["v"], t["v"])
    if t["k"] == "app" and t["args"]:
        return "(%s %s)" % (t["f"], " ".join(term_text_ren(a, ren) for a in t["args"]))
    return term_text(t)


def desugar_connectives(f):
    """core AST of a formula that may contain implies/iff/xor nodes (truth tables of islaspec)"""
    op = f["op"]
    if op in ("forall", "exists", "forallint", "existsint"):
        return dict(f, body=desugar_connectives(f["body"]))
    if op in ("and", "or"):
        return dict(f, args=[desugar_connectives(a) for a in f["args"]])
    if op == "not":
        return dict(f, arg=desugar_connectives(f["arg"]))
    if op in ("implies", "iff", "xor"):
        a, b = [desugar_connectives(x) for x in f["args"]]
        if op == "implies":
            return OR(NOT(a), b)
        if op == "iff":
            return OR(AND(a, b), AND(NOT(a), NOT(b)))
        return OR(AND(a, NOT(b)), AND(NOT(a), b))
    return f
