"""Pairs (sugared concrete syntax, documented core translation as AST) for C08 and sources for C07.
The core translations follow islaspec.rst section 'Simplified Syntax'."""
import random

from harness import formulas as F
from harness.formulas import FA, EX, AND, OR, NOT, PRED, COUNT, SMT, M, MCH, MNT, TRUE
from harness.smt import A, I, S, V


def lit(v, s):
    return SMT(A("=", V(v), S(s)))


def quantifier_chain(f):
    """[(var, type)] of the leading tree quantifiers"""
    out = []
    while f["op"] in ("forall", "exists"):
        out.append((f["v"], f["ty"], f["in"], bool(f["mexpr"])))
        f = f["body"]
    return out, f


def mechanical(grammar, rnd, n):
    """sugar derived mechanically from schema-generated core formulas"""
    out = []
    base = F.schema(grammar, rnd, n * 3, with_numeric=False)
    for fam, f in base:
        chain, body = quantifier_chain(f)
        # (1) omitted `in start` + prefix/infix notation
        out.append(("omit-in-start+infix", F.sugar_text(f), f))
        out.append(("omit-in-start+sexpr", F.sugar_text(f, infix=False), f))
        types = [t for _, t, _, _ in chain]
        if len(set(types)) == len(types) and not any(m for *_, m in chain):
            # (2) omitted bound-variable names: the nonterminal addresses the variable
            ren = {v: t for v, t, _, _ in chain}
            out.append(("omit-names", F.sugar_text(f, ren=ren), f))
            # (3) free nonterminal: the outermost universal quantifier is left out
            if f["op"] == "forall" and f["in"] == "start":
                v, t = chain[0][0], chain[0][1]
                out.append(("free-nonterminal", F.sugar_text(f["body"], ren={v: t}), f))
        if len(out) >= n * 4:
            break
    # (4) free nonterminal whose closure must stay around the WHOLE formula (empty domains matter)
    nts = [k for k in grammar if k != "<start>"]
    lits = {k: sorted(F.expansions(grammar, k, 4), key=lambda s: (len(s), s))[:4] for k in nts}
    for _ in range(max(4, n // 3)):
        t, u = rnd.choice(nts), rnd.choice(nts)
        if t == u or not lits[t] or not lits[u]:
            continue
        a = lit("x", rnd.choice(lits[t]))
        e = EX(u, "y", lit("y", rnd.choice(lits[u])))
        for conn, fam in ((AND, "free-nt-and-exists"), (OR, "free-nt-or-exists")):
            core = FA(t, "x", conn(a, e))
            out.append((fam, F.sugar_text(core["body"], ren={"x": t}), core))
    # (5) implies / iff / xor and negative literals
    for _ in range(max(4, n // 3)):
        t = rnd.choice(nts)
        if not lits[t]:
            continue
        a = lit("x", rnd.choice(lits[t]))
        b = SMT(A(rnd.choice(["<", ">", "<=", ">="]), A("str.len", V("x")), I(rnd.choice([-1, 0, 1, 2]))))
        for conn in ("implies", "iff", "xor"):
            sug = FA(t, "x", {"op": conn, "args": [a, b]})
            out.append(("connective-" + conn, F.sugar_text(sug), F.desugar_connectives(sug)))
    return out


def hand(name):
    out = []
    add = lambda fam, text, core: out.append((fam, text, core))
    if name in ("ASSGN", "ASSGN2"):
        defuse_core = FA("<assgn>", "assgn", EX("<assgn>", "decl", AND(PRED("before", "decl", "assgn"), SMT(A("=", V("rhs"), V("lhs")))),
                                             mexpr=M(MNT("<var>", "lhs"), MCH(" := "), MNT("<rhs>"))),
                         mexpr=M(MNT("<var>"), MCH(" := "), MNT("<var>", "rhs")))
        add("doc-xpath", 'forall <assgn> assgn: exists <assgn> decl: (before(decl, assgn) and assgn.<rhs>.<var> = decl.<var>)', defuse_core)
        add("doc-xpath-free-nt", 'exists <assgn> decl: (before(decl, <assgn>) and <assgn>.<rhs>.<var> = decl.<var>)', defuse_core)
        add("doc-infix", 'forall <assgn> assgn="<var> := {<var> rhs}": exists <assgn> decl="{<var> lhs} := <rhs>": (before(decl, assgn) and lhs = rhs)', defuse_core)
        add("xpath-child", 'forall <assgn> a: a.<rhs>.<var> = "a"', FA("<assgn>", "a", lit("v", "a"), mexpr=M(MNT("<var>"), MCH(" := "), MNT("<var>", "v"))))
        add("xpath-child", 'exists <assgn> a: a.<var> = "b"', EX("<assgn>", "a", lit("l", "b"), mexpr=M(MNT("<var>", "l"), MCH(" := "), MNT("<rhs>"))))
        add("xpath-child", 'forall <assgn> a: a.<rhs>.<digit> = "1"', FA("<assgn>", "a", lit("d", "1"), mexpr=M(MNT("<var>"), MCH(" := "), MNT("<digit>", "d"))))
        add("xpath-descendant", 'forall <stmt> s: s..<var> = "a"', FA("<stmt>", "s", FA("<var>", "v", lit("v", "a"), inn="s")))
        add("xpath-descendant", '<assgn>..<digit> = "1"', FA("<assgn>", "a", FA("<digit>", "d", lit("d", "1"), inn="a")))
        add("xpath-free-nt", '<assgn>.<var> = "a"', FA("<assgn>", "a", lit("l", "a"), mexpr=M(MNT("<var>", "l"), MCH(" := "), MNT("<rhs>"))))
        add("doc-omit-name", 'exists <assgn>: <assgn> = "a := b"', EX("<assgn>", "assgn", lit("assgn", "a := b")))
        add("free-nt-start", 'str.len(<start>) > 6', FA("<start>", "s", SMT(A(">", A("str.len", V("s")), I(6)))))
        add("free-nt-start", 'inside(<var>, <start>)', FA("<start>", "s", FA("<var>", "v", PRED("inside", "v", "s"))))
        add("free-nt-empty-domain", '<digit> = "1" and exists <var> v: v = "b"', FA("<digit>", "d", AND(lit("d", "1"), EX("<var>", "v", lit("v", "b")))))
        add("free-nt-empty-domain", '<digit> = "1" or exists <var> v: v = "b"', FA("<digit>", "d", OR(lit("d", "1"), EX("<var>", "v", lit("v", "b")))))
        # three disjuncts, only some of which mention a free nonterminal (the closure of each nonterminal distributes over `or`)
        d0, va, vb = lit("d", "0"), lit("v", "a"), lit("v", "b")
        add("free-nt-3-disjuncts", '<digit> = "0" or <var> = "a" or <var> = "b"', FA("<digit>", "d", FA("<var>", "v", OR(d0, va, vb))))
        add("free-nt-3-disjuncts", '<var> = "a" or <digit> = "0" or <var> = "b"', FA("<digit>", "d", FA("<var>", "v", OR(va, d0, vb))))
        add("free-nt-3-disjuncts", 'str.len(<stmt>) > 9 or <var> = "a" or <var> = "b"',
            FA("<stmt>", "s", FA("<var>", "v", OR(SMT(A(">", A("str.len", V("s")), I(9))), va, vb))))
        add("free-nt-3-disjuncts", '<digit> = "0" implies (<var> = "a" or <var> = "b")', FA("<digit>", "d", FA("<var>", "v", OR(NOT(d0), va, vb))))
        add("free-nt-3-disjuncts", 'exists <digit> e: e = "1" or <var> = "a" or <var> = "b"', FA("<var>", "v", OR(EX("<digit>", "e", lit("e", "1")), va, vb)))
        # omitted quantifier name + match expression whose variable has the default name of a free nonterminal in scope
        add("free-nt-vs-mexpr-name", 'exists <assgn>="{<var> var} := <rhs>": var = <var>',
            FA("<var>", "v0", EX("<assgn>", "a", SMT(A("=", V("var"), V("v0"))), mexpr=M(MNT("<var>", "var"), MCH(" := "), MNT("<rhs>")))))
        add("free-nt-vs-mexpr-name", 'forall <assgn>="<var> := {<digit> digit}": (digit = "1" or <digit> = "0")',
            FA("<digit>", "d0", FA("<assgn>", "a", OR(lit("digit", "1"), lit("d0", "0")), mexpr=M(MNT("<var>"), MCH(" := "), MNT("<digit>", "digit")))))
        add("const-decl", 'const start: <start>; forall <var> v in start: v = "a"', FA("<var>", "v", lit("v", "a")))
        add("const-decl", 'const c: <start>; exists <digit> d in c: (d = "1" or inside(d, c))', EX("<digit>", "d", OR(lit("d", "1"), PRED("inside", "d", "start"))))
        add("negative-literal", 'forall <var> v: str.len(v) > -1', FA("<var>", "v", SMT(A(">", A("str.len", V("v")), I(-1)))))
        add("prefix-nested", 'forall <assgn> a: str.len(a) + 1 = 7', FA("<assgn>", "a", SMT(A("=", A("+", A("str.len", V("a")), I(1)), I(7)))))
        add("prefix-nested", 'forall <rhs> r: str.to.int(str.from_int(str.len(r))) = 1', FA("<rhs>", "r", SMT(A("=", A("str.to.int", A("str.from_int", A("str.len", V("r")))), I(1)))))
    if name == "ASSGN2S":
        # <assgn> ::= <var> := <rhs> | !<var> : an XPath step through <assgn> covers both alternatives
        def both(q, conn, body, var):
            return conn(q("<assgn>", "a", body, mexpr=M(MNT("<var>", var), MCH(" := "), MNT("<rhs>"))),
                        q("<assgn>", "a", body, mexpr=M(MCH("!"), MNT("<var>", var))))
        add("xpath-alternatives", 'forall <assgn> a: a.<var> = "a"', both(FA, AND, lit("l", "a"), "l"))
        add("xpath-alternatives", 'exists <assgn> a: a.<var> = "b"', both(EX, OR, lit("l", "b"), "l"))
        add("xpath-alternatives", '<assgn>.<var> = "a"', both(FA, AND, lit("l", "a"), "l"))
        add("xpath-alternatives", 'forall <assgn> a: not a.<var> = "b"', both(FA, AND, NOT(lit("l", "b")), "l"))
        add("xpath-child", 'forall <assgn> a: a.<rhs>.<var> = "a"', FA("<assgn>", "a", lit("v", "a"), mexpr=M(MNT("<var>"), MCH(" := "), MNT("<var>", "v"))))
        add("xpath-descendant", 'forall <stmt> s: s..<var> = "a"', FA("<stmt>", "s", FA("<var>", "v", lit("v", "a"), inn="s")))
    if name == "WIDE12":
        def nth_d(k, var="x"):
            return M(*[MNT("<d>", var) if j == k else MNT("<d>") for j in range(1, 13)])
        for k in (2, 9, 10, 11, 12):
            add("xpath-index-wide", 'forall <row> r: r.<d>[%d] = "1"' % k, FA("<row>", "r", lit("x", "1"), mexpr=nth_d(k)))
        add("xpath-index-wide", '<row>.<d>[12] = "0"', FA("<row>", "r", lit("x", "0"), mexpr=nth_d(12)))
        add("xpath-index-wide", 'exists <row> r: r.<d>[11] = r.<d>[1]', EX("<row>", "r", SMT(A("=", V("x"), V("y"))),
                                                                          mexpr=M(*[MNT("<d>", "y") if j == 1 else MNT("<d>", "x") if j == 11 else MNT("<d>") for j in range(1, 13)])))
    if name == "XMLISH":
        both_all = AND(FA("<tree>", "t", lit("i", "a"), mexpr=M(MCH("("), MNT("<id>", "i"), MCH(")"), MNT("<inner>"), MCH("(/"), MNT("<id>"), MCH(")"))),
                       FA("<tree>", "t", lit("i", "a"), mexpr=M(MCH("("), MNT("<id>", "i"), MCH("/)"))))
        add("xpath-alternatives", 'forall <tree> t: t.<id> = "a"', both_all)
        both_ex = OR(EX("<tree>", "t", lit("i", "a"), mexpr=M(MCH("("), MNT("<id>", "i"), MCH(")"), MNT("<inner>"), MCH("(/"), MNT("<id>"), MCH(")"))),
                     EX("<tree>", "t", lit("i", "a"), mexpr=M(MCH("("), MNT("<id>", "i"), MCH("/)"))))
        add("xpath-alternatives", 'exists <tree> t: t.<id> = "a"', both_ex)
        add("xpath-index", 'forall <tree> t: t.<id>[2] = "a"', FA("<tree>", "t", lit("c", "a"), mexpr=M(MCH("("), MNT("<id>"), MCH(")"), MNT("<inner>"), MCH("(/"), MNT("<id>", "c"), MCH(")"))))
        add("xpath-index", 'forall <tree> t: t.<id>[1] = t.<id>[2]', FA("<tree>", "t", SMT(A("=", V("o"), V("c"))), mexpr=M(MCH("("), MNT("<id>", "o"), MCH(")"), MNT("<inner>"), MCH("(/"), MNT("<id>", "c"), MCH(")"))))
        add("xpath-descendant", '<inner>..<text> = "x"', FA("<inner>", "i", FA("<text>", "t", lit("t", "x"), inn="i")))
        add("free-nt", 'level("GE", "<tree>", <id>, <text>) or true', FA("<id>", "i", FA("<text>", "t", OR(PRED("level", ("s", "GE"), ("s", "<tree>"), "i", "t"), TRUE))))
    return out


def pairs(name, grammar, seed, n):
    rnd = random.Random(seed * 104729 + len(name))
    return hand(name) + mechanical(grammar, rnd, n)
